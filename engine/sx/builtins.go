package sx

import (
	"fmt"
	"go/token"
	"go/types"
	"math"
	"math/bits"
	"sort"
	"strings"

	"golang.org/x/tools/go/ssa"

	"verif/engine/solver"
	"verif/engine/term"
)

const verifPkg = "github.com/makiuchi-d/gozxing/zzverif"

type externalFn func(fr *frame, args []value) value

var externals map[string]externalFn

func init() {
	externals = map[string]externalFn{
		verifPkg + ".Bool": func(fr *frame, a []value) value { return fr.m.newInput("bool", term.BoolSort) },
		verifPkg + ".Byte": func(fr *frame, a []value) value { return fr.m.newInput("u8", term.BVSort(8)) },
		verifPkg + ".Digit": func(fr *frame, a []value) value {
			return lowerTerm(fr.m.C.ZExt(8, fr.m.newInput("u4", term.BVSort(4)).(*term.Term)), types.Typ[types.Uint8])
		},
		verifPkg + ".Uint16":   func(fr *frame, a []value) value { return fr.m.newInput("u16", term.BVSort(16)) },
		verifPkg + ".Uint32":   func(fr *frame, a []value) value { return fr.m.newInput("u32", term.BVSort(32)) },
		verifPkg + ".Int32":    func(fr *frame, a []value) value { return fr.m.newInput("i32", term.BVSort(32)) },
		verifPkg + ".Int":      func(fr *frame, a []value) value { return fr.m.newInput("i64", term.BVSort(64)) },
		verifPkg + ".Float64":  func(fr *frame, a []value) value { return fr.m.newInput("f64", term.FPSort) },
		verifPkg + ".IntRange": extIntRange,
		verifPkg + ".Assume":   extAssume,
		verifPkg + ".Assert":   extAssert,
		verifPkg + ".Reach":    extReach,
		verifPkg + ".Except":   extExcept,
		verifPkg + ".Concrete": func(fr *frame, a []value) value { return int(fr.m.concInt(fr, a[0], 1<<16)) },
		verifPkg + ".And":      extBoolOp(0),
		verifPkg + ".Or":       extBoolOp(1),
		verifPkg + ".Implies":  extBoolOp(2),
		verifPkg + ".Symbolic": func(fr *frame, a []value) value { return true },
		verifPkg + ".Fail":     func(fr *frame, a []value) value { extAssertMsg(fr, false, toString(a[0])); return nil },

		"fmt.Sprintf": extSprintf,
		"fmt.Sprint":  func(fr *frame, a []value) value { return "<fmt.Sprint>" },
		"fmt.Errorf":  extErrorf,

		"golang.org/x/xerrors.Caller":      extZeroResult,
		"golang.org/x/xerrors.Errorf":      extErrorf,
		"golang.org/x/xerrors.FormatError": func(fr *frame, a []value) value { return nil },
		"runtime.Callers":                  func(fr *frame, a []value) value { return 0 },

		"math.Abs":         fpUn(term.OFAbs, math.Abs),
		"math.Floor":       fpUn(term.OFFloor, math.Floor),
		"math.Ceil":        fpUn(term.OFCeil, math.Ceil),
		"math.Trunc":       fpUn(term.OFRoundRTZ, math.Trunc),
		"math.Sqrt":        fpUn(term.OFSqrt, math.Sqrt),
		"math.Min":         fpBin(term.OFMin, math.Min),
		"math.Max":         fpBin(term.OFMax, math.Max),
		"math.Inf":         func(fr *frame, a []value) value { return math.Inf(int(asInt64(a[0]))) },
		"math.NaN":         func(fr *frame, a []value) value { return math.NaN() },
		"math.IsNaN":       extIsNaN,
		"math.IsInf":       extIsInf,
		"math.Float64bits": func(fr *frame, a []value) value { return math.Float64bits(a[0].(float64)) },
		"math.Float64frombits": func(fr *frame, a []value) value {
			return math.Float64frombits(a[0].(uint64))
		},

		"math/bits.Reverse32":       extReverse32,
		"math/bits.TrailingZeros32": extTZ32,
		"math/bits.LeadingZeros32":  extLZ32,
		"math/bits.OnesCount":       extOnesCount(64),
		"math/bits.OnesCount32":     extOnesCount(32),
		"math/bits.OnesCount64":     extOnesCount(64),

		"strconv.Itoa":               extItoa,
		"internal/stringslite.Clone": func(fr *frame, a []value) value { return a[0] },
		"strings.Clone":              func(fr *frame, a []value) value { return a[0] },
		"time.Now":                   extZeroResult,
		"sort.Slice":                 extSortSlice,

		"internal/bytealg.IndexByteString": func(fr *frame, a []value) value {
			return strings.IndexByte(a[0].(string), a[1].(byte))
		},
		"internal/bytealg.IndexString": func(fr *frame, a []value) value {
			return strings.Index(a[0].(string), a[1].(string))
		},
		"internal/bytealg.CountString": func(fr *frame, a []value) value {
			return strings.Count(a[0].(string), string([]byte{a[1].(byte)}))
		},
		"strings.Repeat": func(fr *frame, a []value) value {
			return strings.Repeat(concStr(fr, a[0]), int(asInt64(a[1])))
		},
		// sync: locks are no-ops for a single thread of execution; stores made while a lock is
		// held (or inside Once.Do) are not reported by the shared-write monitor
		"(*sync.Mutex).Lock":      func(fr *frame, a []value) value { fr.m.lockDepth++; return nil },
		"(*sync.Mutex).Unlock":    func(fr *frame, a []value) value { fr.m.lockDepth--; return nil },
		"(*sync.RWMutex).Lock":    func(fr *frame, a []value) value { fr.m.lockDepth++; return nil },
		"(*sync.RWMutex).Unlock":  func(fr *frame, a []value) value { fr.m.lockDepth--; return nil },
		"(*sync.RWMutex).RLock":   func(fr *frame, a []value) value { return nil },
		"(*sync.RWMutex).RUnlock": func(fr *frame, a []value) value { return nil },
		"(*sync.Once).Do": func(fr *frame, a []value) value {
			o := a[0].(*value)
			if fr.m.onceDone[o] {
				return nil
			}
			fr.m.onceDone[o] = true
			fr.m.lockDepth++
			fr.m.call(fr, token.NoPos, a[1], nil)
			fr.m.lockDepth--
			return nil
		},
		"strings.Index":     extStringsIndex,
		"strings.HasPrefix": extHasPrefix,
		"strings.HasSuffix": extHasSuffix,
		"strings.ToUpper":   extToUpper,
	}
}

func (m *Machine) newInput(kind string, s term.Sort) value {
	if m.mergeLvl > 0 {
		panic(abortMerge{"input created inside merge"})
	}
	name := fmt.Sprintf("in%d_%s", m.nInputs, kind)
	m.nInputs++
	t := m.C.Var(name, s)
	m.Inputs = append(m.Inputs, Input{Kind: kind, T: t})
	return t
}

func extIntRange(fr *frame, a []value) value {
	m := fr.m
	lo, hi := asInt64(a[0]), asInt64(a[1])
	if lo > hi {
		panic(pathEnd{kind: "assume-false"})
	}
	if lo == hi {
		// still consume an input so replay files line up
		t := m.newInput("i64", term.BVSort(64)).(*term.Term)
		m.pushPC(m.C.Eq(t, m.C.BV(64, uint64(lo))))
		return int(lo)
	}
	t := m.newInput("i64", term.BVSort(64)).(*term.Term)
	m.pushPC(m.C.Cmp(term.OBvSLe, m.C.BV(64, uint64(lo)), t))
	m.pushPC(m.C.Cmp(term.OBvSLe, t, m.C.BV(64, uint64(hi))))
	return t
}

func extAssume(fr *frame, a []value) value {
	m := fr.m
	switch c := a[0].(type) {
	case bool:
		if !c {
			panic(pathEnd{kind: "assume-false"})
		}
	case *term.Term:
		if !m.feasible(c) {
			panic(pathEnd{kind: "assume-false"})
		}
		m.pushPC(c)
	}
	return nil
}

func extAssert(fr *frame, a []value) value {
	extAssertMsg(fr, a[0], toString(a[1]))
	return nil
}

func extAssertMsg(fr *frame, cond value, msg string) {
	m := fr.m
	where := m.where(fr.caller)
	switch c := cond.(type) {
	case bool:
		if c {
			m.Stats.Obligations++
			m.Stats.Trivial++
			return
		}
		m.obligation("assert", msg, where, m.C.True)
		panic(pathEnd{kind: "assert-failed", msg: msg})
	case *term.Term:
		if m.obligation("assert", msg, where, m.C.Not(c)) {
			return // proved: c is implied by the path condition, nothing to add
		}
		if !m.feasible(c) {
			panic(pathEnd{kind: "assert-failed", msg: msg})
		}
		m.pushPC(c)
	}
}

func extReach(fr *frame, a []value) value {
	m := fr.m
	tag := toString(a[0])
	if m.check(m.C.True, m.FeasTimeoutMs) == solver.Sat {
		m.Reached[tag]++
		m.Stats.ReachWitnesses++
	}
	return nil
}

// Except(id, pred): the region pred is a listed known finding. In the main pass it is assumed
// away; in the confirmation pass for id only that region is explored.
func extExcept(fr *frame, a []value) value {
	m := fr.m
	id := toString(a[0])
	mode, open := m.Known[id]
	if !open {
		return nil
	}
	var c *term.Term
	switch p := a[1].(type) {
	case bool:
		c = m.C.Bool(p)
	case *term.Term:
		c = p
	}
	if mode == "confirm" {
		extAssume(fr, []value{lowerTerm(c, types.Typ[types.Bool])})
	} else {
		if c.IsConst() && c.K != 0 {
			m.Stats.ExcludedByKnown++
		}
		extAssume(fr, []value{lowerTerm(m.C.Not(c), types.Typ[types.Bool])})
	}
	return nil
}

func extZeroResult(fr *frame, a []value) value {
	res := fr.fn.Signature.Results()
	if res.Len() == 0 {
		return nil
	}
	return zero(res)
}

func goValue(v value) (interface{}, bool) {
	switch x := v.(type) {
	case bool, int, int8, int16, int32, int64, uint, uint8, uint16, uint32, uint64, uintptr, float32, float64, string:
		return x, true
	case iface:
		if x.t == nil {
			return nil, true
		}
		if _, isBasic := x.t.Underlying().(*types.Basic); isBasic {
			return goValue(x.v)
		}
		if ref, ok := x.v.(foreignRef); ok {
			return ref.extra, true
		}
		return nil, false
	}
	return nil, false
}

func extSprintf(fr *frame, a []value) value {
	format, ok := a[0].(string)
	if !ok {
		return "<fmt>"
	}
	var gargs []interface{}
	for _, v := range a[1].([]value) {
		g, ok := goValue(v)
		if !ok {
			return "<fmt:" + format + ">"
		}
		gargs = append(gargs, g)
	}
	return fmt.Sprintf(format, gargs...)
}

func extErrorf(fr *frame, a []value) value {
	m := fr.m
	msg := "<error>"
	if s, ok := a[0].(string); ok {
		msg = s
	}
	pkg := m.prog.ImportedPackage("golang.org/x/xerrors")
	if pkg == nil {
		enginePanic("xerrors not loaded")
	}
	t := pkg.Type("errorString").Type()
	st := zero(t).(structure)
	st[0] = msg
	var cell value = st
	return iface{t: types.NewPointer(t), v: &cell}
}

func fpUn(op term.Op, f func(float64) float64) externalFn {
	return func(fr *frame, a []value) value {
		if t, ok := a[0].(*term.Term); ok {
			return fr.m.C.FUn(op, t)
		}
		return f(a[0].(float64))
	}
}

func fpBin(op term.Op, f func(float64, float64) float64) externalFn {
	return func(fr *frame, a []value) value {
		_, s1 := a[0].(*term.Term)
		_, s2 := a[1].(*term.Term)
		if s1 || s2 {
			return fr.m.C.FBin(op, fr.m.term(a[0]), fr.m.term(a[1]))
		}
		return f(a[0].(float64), a[1].(float64))
	}
}

func extIsNaN(fr *frame, a []value) value {
	if t, ok := a[0].(*term.Term); ok {
		return lowerTerm(fr.m.C.FPred(term.OFIsNaN, t), types.Typ[types.Bool])
	}
	return math.IsNaN(a[0].(float64))
}

func extIsInf(fr *frame, a []value) value {
	sign := int(asInt64(a[1]))
	if t, ok := a[0].(*term.Term); ok {
		c := fr.m.C
		r := c.FPred(term.OFIsInf, t)
		if sign > 0 {
			r = c.And(r, c.FCmp(term.OFLt, c.FP(0), t))
		} else if sign < 0 {
			r = c.And(r, c.FCmp(term.OFLt, t, c.FP(0)))
		}
		return lowerTerm(r, types.Typ[types.Bool])
	}
	return math.IsInf(a[0].(float64), sign)
}

func extReverse32(fr *frame, a []value) value {
	if t, ok := a[0].(*term.Term); ok {
		c := fr.m.C
		r := c.Extract(0, 0, t)
		for i := 1; i < 32; i++ {
			r = c.Concat(r, c.Extract(i, i, t))
		}
		return r
	}
	return bits.Reverse32(a[0].(uint32))
}

func extTZ32(fr *frame, a []value) value {
	if t, ok := a[0].(*term.Term); ok {
		c := fr.m.C
		r := c.BV(64, 32)
		for i := 31; i >= 0; i-- {
			r = c.Ite(c.Eq(c.Extract(i, i, t), c.BV(1, 1)), c.BV(64, uint64(i)), r)
		}
		return r
	}
	return bits.TrailingZeros32(a[0].(uint32))
}

func extLZ32(fr *frame, a []value) value {
	if t, ok := a[0].(*term.Term); ok {
		c := fr.m.C
		r := c.BV(64, 32)
		for i := 0; i < 32; i++ {
			r = c.Ite(c.Eq(c.Extract(i, i, t), c.BV(1, 1)), c.BV(64, uint64(31-i)), r)
		}
		return r
	}
	return bits.LeadingZeros32(a[0].(uint32))
}

func extOnesCount(w int) externalFn {
	return func(fr *frame, a []value) value {
		if t, ok := a[0].(*term.Term); ok {
			c := fr.m.C
			r := c.BV(64, 0)
			for i := 0; i < t.Sort.W; i++ {
				r = c.Bin(term.OBvAdd, r, c.ZExt(64, c.Extract(i, i, t)))
			}
			return r
		}
		x := uint64(asInt64(a[0]))
		if w < 64 {
			x &= 1<<uint(w) - 1
		}
		return bits.OnesCount64(x)
	}
}

func extItoa(fr *frame, a []value) value {
	if _, ok := a[0].(*term.Term); ok {
		return fmt.Sprint(fr.m.concInt(fr, a[0], 1<<12))
	}
	return fmt.Sprint(asInt64(a[0]))
}

func concStr(fr *frame, v value) string {
	switch s := v.(type) {
	case string:
		return s
	case symstr:
		return fr.m.concKey(fr, s, types.Typ[types.String]).(string)
	}
	panic(fmt.Sprintf("concStr %T", v))
}

func extStringsIndex(fr *frame, a []value) value {
	return strings.Index(concStr(fr, a[0]), concStr(fr, a[1]))
}
func extHasPrefix(fr *frame, a []value) value {
	return strings.HasPrefix(concStr(fr, a[0]), concStr(fr, a[1]))
}
func extHasSuffix(fr *frame, a []value) value {
	return strings.HasSuffix(concStr(fr, a[0]), concStr(fr, a[1]))
}
func extToUpper(fr *frame, a []value) value {
	return strings.ToUpper(concStr(fr, a[0]))
}

// sort.Slice(x, less) with an interpreted less function (insertion sort; stable, deterministic).
func extSortSlice(fr *frame, a []value) value {
	m := fr.m
	s := a[0].(iface).v.([]value)
	less := a[1]
	cp := append([]value(nil), s...)
	lessFn := func(i, j int) bool {
		// less refers to the slice by index, so operate in place: place candidates at i, j
		r := m.call(fr, token.NoPos, less, []value{i, j})
		switch b := r.(type) {
		case bool:
			return b
		case *term.Term:
			return m.branch(b)
		}
		panic("sort less result")
	}
	_ = cp
	// simple in-place insertion sort using swaps, calling less(i, j) on current contents
	for i := 1; i < len(s); i++ {
		for j := i; j > 0 && lessFn(j, j-1); j-- {
			vj, vk := s[j], s[j-1]
			m.write(&s[j], vk)
			m.write(&s[j-1], vj)
		}
	}
	return nil
}

// ---- builtins ----

// copyVal copies struct and array values (which are held by reference in the engine) so that
// append and copy do not alias their source elements.
func copyVal(v value) value {
	switch x := v.(type) {
	case structure:
		a := make(structure, len(x))
		for i := range x {
			a[i] = copyVal(x[i])
		}
		return a
	case array:
		a := make(array, len(x))
		for i := range x {
			a[i] = copyVal(x[i])
		}
		return a
	}
	return v
}

func (m *Machine) callBuiltin(caller *frame, callpos token.Pos, fn *ssa.Builtin, args []value) value {
	switch fn.Name() {
	case "append":
		if len(args) == 1 {
			return args[0]
		}
		dst := args[0].([]value)
		var src []value
		switch s := args[1].(type) {
		case string, symstr:
			src, _ = strBytes(s)
		case []value:
			src = s
		}
		if len(src) == 0 {
			return dst
		}
		if len(dst)+len(src) <= cap(dst) {
			full := dst[:len(dst)+len(src)]
			for i, v := range src {
				m.write(&full[len(dst)+i], copyVal(v))
			}
			return full
		}
		ncap := 2 * cap(dst)
		if ncap < len(dst)+len(src) {
			ncap = len(dst) + len(src)
		}
		out := make([]value, len(dst)+len(src), ncap)
		for i, v := range dst {
			out[i] = copyVal(v)
		}
		for i, v := range src {
			out[len(dst)+i] = copyVal(v)
		}
		return out

	case "copy":
		dst := args[0].([]value)
		var src []value
		switch s := args[1].(type) {
		case string, symstr:
			src, _ = strBytes(s)
		case []value:
			src = s
		}
		n := len(dst)
		if len(src) < n {
			n = len(src)
		}
		if n > 0 && len(dst) > 0 && len(src) > 0 && &dst[0] != &src[0] {
			tmp := make([]value, n)
			for i := 0; i < n; i++ {
				tmp[i] = copyVal(src[i])
			}
			for i := 0; i < n; i++ {
				m.write(&dst[i], tmp[i])
			}
		}
		return n

	case "delete":
		switch mp := args[0].(type) {
		case map[value]value:
			m.mapDelete(mp, m.concKey(caller, args[1], nil))
		default:
			enginePanic("delete on %T", mp)
		}
		return nil

	case "print", "println":
		return nil

	case "len":
		switch x := args[0].(type) {
		case string:
			return len(x)
		case symstr:
			return len(x.b)
		case array:
			return len(x)
		case *value:
			return len((*x).(array))
		case []value:
			return len(x)
		case map[value]value:
			return len(x)
		case *hashmap:
			return x.len()
		default:
			panic(fmt.Sprintf("len: illegal operand: %T", x))
		}

	case "cap":
		switch x := args[0].(type) {
		case array:
			return cap(x)
		case *value:
			return cap((*x).(array))
		case []value:
			return cap(x)
		default:
			panic(fmt.Sprintf("cap: illegal operand: %T", x))
		}

	case "min", "max":
		r := args[0]
		for _, y := range args[1:] {
			t := fn.Type().(*types.Signature).Params().At(0).Type()
			op := token.LSS
			if fn.Name() == "max" {
				op = token.GTR
			}
			c := m.binop(caller, op, t, t, y, r)
			switch cb := c.(type) {
			case bool:
				if cb {
					r = y
				}
			case *term.Term:
				r = lowerTerm(m.C.Ite(cb, m.term(y), m.term(r)), t)
			}
		}
		return r

	case "panic":
		m.targetPanic(caller, "explicit panic: "+toString(args[0]))

	case "recover":
		return iface{}

	case "ssa:wrapnilchk":
		recv := args[0]
		if p, ok := recv.(*value); ok && p == nil {
			m.targetPanic(caller, fmt.Sprintf("value method (%s).%s called using nil pointer", toString(args[1]), toString(args[2])))
		}
		return recv
	}
	panic("unknown built-in: " + fn.Name())
}

// ---- deterministic iteration ----

type sliceIter struct {
	items []tuple
	i     int
}

func (it *sliceIter) next() tuple {
	if it.i >= len(it.items) {
		return tuple{false, nil, nil}
	}
	t := it.items[it.i]
	it.i++
	return t
}

type symStrIter struct {
	m *Machine
	b []value
	i int
}

func (it *symStrIter) next() tuple {
	if it.i >= len(it.b) {
		return tuple{false, nil, nil}
	}
	// decode one rune; bytes are made concrete on demand (forks over feasible lead bytes)
	lead := it.b[it.i]
	var lb byte
	if t, ok := lead.(*term.Term); ok {
		lb = byte(it.m.concretize(t, 256))
	} else {
		lb = lead.(uint8)
	}
	n := 1
	switch {
	case lb < 0x80:
		idx := it.i
		it.i++
		return tuple{true, idx, int32(lb)}
	case lb >= 0xC2 && lb <= 0xDF:
		n = 2
	case lb >= 0xE0 && lb <= 0xEF:
		n = 3
	case lb >= 0xF0 && lb <= 0xF4:
		n = 4
	}
	bs := []byte{lb}
	for k := 1; k < n && it.i+k < len(it.b); k++ {
		if t, ok := it.b[it.i+k].(*term.Term); ok {
			bs = append(bs, byte(it.m.concretize(t, 256)))
		} else {
			bs = append(bs, it.b[it.i+k].(uint8))
		}
	}
	r, size := decodeRune(bs)
	idx := it.i
	it.i += size
	return tuple{true, idx, r}
}

func decodeRune(bs []byte) (int32, int) {
	for i, r := range string(bs) {
		_ = i
		if r == 0xFFFD {
			// could be a genuine U+FFFD (3 bytes) or an error (1 byte)
			if len(bs) >= 3 && bs[0] == 0xEF && bs[1] == 0xBF && bs[2] == 0xBD {
				return r, 3
			}
			return r, 1
		}
		return r, len(string(r))
	}
	return 0xFFFD, 1
}

func (m *Machine) rangeIter(x value, t types.Type) iter {
	switch x := x.(type) {
	case map[value]value:
		keys := make([]value, 0, len(x))
		for k := range x {
			keys = append(keys, k)
		}
		sort.Slice(keys, func(i, j int) bool { return keyString(keys[i]) < keyString(keys[j]) })
		items := make([]tuple, len(keys))
		for i, k := range keys {
			items[i] = tuple{true, k, x[k]}
		}
		return &sliceIter{items: items}
	case *hashmap:
		var items []tuple
		if x != nil {
			for _, e := range x.entries() {
				for ; e != nil; e = e.next {
					items = append(items, tuple{true, e.key, e.value})
				}
			}
		}
		sort.Slice(items, func(i, j int) bool { return keyString(items[i][1]) < keyString(items[j][1]) })
		return &sliceIter{items: items}
	case string:
		return &stringIter{Reader: strings.NewReader(x)}
	case symstr:
		return &symStrIter{m: m, b: x.b}
	}
	panic(fmt.Sprintf("cannot range over %T", x))
}

func keyString(v value) string {
	switch x := v.(type) {
	case iface:
		if x.t == nil {
			return "nil"
		}
		return x.t.String() + ":" + keyString(x.v)
	case structure:
		s := "{"
		for _, f := range x {
			s += keyString(f) + ","
		}
		return s + "}"
	}
	return fmt.Sprintf("%T:%020v", v, v)
}

func extBoolOp(k int) externalFn {
	return func(fr *frame, a []value) value {
		c := fr.m.C
		x, y := fr.m.term(a[0]), fr.m.term(a[1])
		var r *term.Term
		switch k {
		case 0:
			r = c.And(x, y)
		case 1:
			r = c.Or(x, y)
		default:
			r = c.Implies(x, y)
		}
		return lowerTerm(r, types.Typ[types.Bool])
	}
}
