// Package sx is a symbolic executor for Go SSA, derived from golang.org/x/tools/go/ssa/interp
// (BSD licence, The Go Authors). Scalars may be SMT terms; the heap is concrete in shape.
//
// Forking is done by re-execution along a recorded decision prefix; state merging of the two
// sides of a symbolic branch is done in place with an undo journal.
package sx

import (
	"fmt"
	"go/token"
	"go/types"
	"math/rand"
	"os"
	"reflect"
	"sort"
	"strings"
	"time"

	"golang.org/x/tools/go/ssa"

	"verif/engine/solver"
	"verif/engine/term"
)

type continuation int

const (
	kNext continuation = iota
	kReturn
	kJump
)

// ---- outcomes ----

type pathEnd struct {
	kind string // "panic", "assume-false", "dead", "budget"
	msg  string
}

type abortMerge struct{ why string }

type engineError struct{ msg string }

func (e engineError) Error() string { return e.msg }

func enginePanic(format string, args ...interface{}) {
	panic(engineError{fmt.Sprintf(format, args...)})
}

// Input is one nondeterministic value created by the harness on the current path.
type Input struct {
	Kind string // bool, u8, i64, u32, f64 ...
	T    *term.Term
}

// Finding is a violated obligation with a counter-model.
type Finding struct {
	Kind   string   `json:"kind"` // "assert", "panic", "shared-write"
	Msg    string   `json:"msg"`
	Where  string   `json:"where"`
	Inputs []InVal  `json:"inputs"`
	Known  string   `json:"known,omitempty"`
	Trace  []string `json:"trace,omitempty"`
}

type InVal struct {
	Kind string `json:"kind"`
	Val  uint64 `json:"val"`
}

type Stats struct {
	Paths           int
	Steps           int64
	Forks           int
	Merges          int
	MergeAborts     int
	Obligations     int // asserts + implicit panic checks that reached the decision stage
	Trivial         int // decided by the simplifier alone
	SolverUnsat     int
	SolverSat       int
	Inconclusive    int
	ReachWitnesses  int
	FeasQueries     int
	FeasByModel     int
	Panics          int
	MaxPC           int
	Concretized     int
	ExcludedByKnown int
	ByTruthTable    int
	BadModels       int // sat answers whose model did not validate in the evaluator (treated as unknown)
}

type decision struct {
	choice int
	n      int
	vals   []uint64
}

type poolModel struct {
	m     *term.Model
	okLen int
}

type Machine struct {
	prog    *ssa.Program
	globals map[*ssa.Global]*value
	C       *term.Ctx
	sizes   types.Sizes

	inc     *solver.Proc
	printer *term.Printer
	litName map[int]string

	pc       []*term.Term
	journal  []undo
	mergeLvl int
	noMerge  map[*ssa.If]bool
	ifHist   map[*ssa.If]int
	simpleIf map[*ssa.If]bool
	simpleFn map[*ssa.Function]bool

	decs   []decision
	decPos int

	Inputs  []Input
	nInputs int
	models  []*poolModel

	shared     map[*value]bool
	sharedMaps map[uintptr]bool
	sharedSeen map[string]bool
	sharedOn   bool
	lockDepth  int
	onceDone   map[*value]bool
	sharedHits []string

	Findings     []Finding
	Stats        Stats
	Reached      map[string]int
	Incomplete   []string
	funcsEncoded map[*ssa.Function]bool

	// configuration
	Known          map[string]string // open known-finding ids -> mode ("exclude" | "confirm")
	MaxSteps       int64             // per path
	MaxPaths       int
	MaxBlockVisit  int
	FeasTimeoutMs  int
	OblTimeout     time.Duration
	Backends       []string
	FreshFirst     bool // send obligations straight to fresh solvers
	Trace          bool
	EnableMerge    bool
	curSteps       int64
	depth          int
	harnessName    string
	cur            *frame
	inScope        bool
	havocN         int
	NoSlice        bool
	SummarizeGFMul bool
	Redirect       map[*ssa.Function]*ssa.Function // calls to key are executed as calls to value (harness stubs)
	varCache       map[int][]*term.Term
	asserted       []*term.Term
	rng            *rand.Rand
	sessionFP      bool
	InitAllowed    func(*ssa.Package) bool
	Deadline       time.Time // per-task wall-clock limit (zero: none)
	stopTask       bool
	MonitorShared  bool // report stores into package-level state (C18)
	sorted         bool
}

type undo struct {
	addr *value
	old  value
	env  map[ssa.Value]value
	key  ssa.Value
	had  bool
	mp   map[value]value
	mkey value
}

func NewMachine(prog *ssa.Program) *Machine {
	m := &Machine{
		prog:          prog,
		globals:       make(map[*ssa.Global]*value),
		C:             term.NewCtx(),
		sizes:         &types.StdSizes{WordSize: 8, MaxAlign: 8},
		printer:       term.NewPrinter(),
		litName:       map[int]string{},
		noMerge:       map[*ssa.If]bool{},
		ifHist:        map[*ssa.If]int{},
		simpleIf:      map[*ssa.If]bool{},
		simpleFn:      map[*ssa.Function]bool{},
		Reached:       map[string]int{},
		funcsEncoded:  map[*ssa.Function]bool{},
		Known:         map[string]string{},
		MaxSteps:      2_000_000_000,
		MaxPaths:      200_000,
		MaxBlockVisit: 100_000,
		FeasTimeoutMs: 5000,
		OblTimeout:    60 * time.Second,
		Backends:      []string{"z3"},
		EnableMerge:   true,
		rng:           rand.New(rand.NewSource(12345)),
		varCache:      map[int][]*term.Term{},
	}
	for _, pkg := range prog.AllPackages() {
		for _, mem := range pkg.Members {
			if g, ok := mem.(*ssa.Global); ok {
				cell := zero(deref(g.Type()))
				m.globals[g] = &cell
			}
		}
	}
	return m
}

func (m *Machine) Close() {
	if m.inc != nil {
		m.inc.Close()
	}
}

func deref(t types.Type) types.Type {
	if p, ok := t.Underlying().(*types.Pointer); ok {
		return p.Elem()
	}
	panic("deref of non-pointer " + t.String())
}

// ---- journal ----

func (m *Machine) write(addr *value, v value) {
	if m.sharedOn && m.shared[addr] {
		m.sharedWrite("store into package-level state")
	}
	m.journal = append(m.journal, undo{addr: addr, old: *addr})
	*addr = v
}

func (m *Machine) setEnv(fr *frame, k ssa.Value, v value) {
	if fr.mergeLvl > 0 {
		old, had := fr.env[k]
		m.journal = append(m.journal, undo{env: fr.env, key: k, old: old, had: had})
	}
	fr.env[k] = v
}

func (m *Machine) mapSet(mp map[value]value, k, v value) {
	if m.sharedOn && m.sharedMaps[reflect.ValueOf(mp).Pointer()] {
		m.sharedWrite("update of a package-level map")
	}
	old, had := mp[k]
	m.journal = append(m.journal, undo{mp: mp, mkey: k, old: old, had: had})
	mp[k] = v
}

func (m *Machine) mapDelete(mp map[value]value, k value) {
	old, had := mp[k]
	if !had {
		return
	}
	if m.sharedOn && m.sharedMaps[reflect.ValueOf(mp).Pointer()] {
		m.sharedWrite("delete from a package-level map")
	}
	m.journal = append(m.journal, undo{mp: mp, mkey: k, old: old, had: had})
	delete(mp, k)
}

func (m *Machine) rollback(cp int) {
	for i := len(m.journal) - 1; i >= cp; i-- {
		u := &m.journal[i]
		switch {
		case u.addr != nil:
			*u.addr = u.old
		case u.env != nil:
			if u.had {
				u.env[u.key] = u.old
			} else {
				delete(u.env, u.key)
			}
		case u.mp != nil:
			if u.had {
				u.mp[u.mkey] = u.old
			} else {
				delete(u.mp, u.mkey)
			}
		}
	}
	m.journal = m.journal[:cp]
}

type envKey struct {
	env *map[ssa.Value]value
	key ssa.Value
}

type mapKey struct {
	mp  *map[value]value
	key value
}

type delta struct {
	u   undo  // identifies the location (first journal entry: holds the pre-value)
	cur value // value at collection time
	has bool  // env/map: present at collection time
}

// collectDelta summarises journal[cp:] as location -> (pre, current).
func (m *Machine) collectDelta(cp int) (map[interface{}]*delta, []interface{}) {
	d := map[interface{}]*delta{}
	var order []interface{}
	for i := cp; i < len(m.journal); i++ {
		u := m.journal[i]
		var k interface{}
		switch {
		case u.addr != nil:
			k = u.addr
		case u.env != nil:
			k = envKeyOf(u.env, u.key)
		default:
			k = mapKeyOf(u.mp, u.mkey)
		}
		if _, ok := d[k]; ok {
			continue
		}
		e := &delta{u: u}
		d[k] = e
		order = append(order, k)
	}
	for _, e := range d {
		switch {
		case e.u.addr != nil:
			e.cur, e.has = *e.u.addr, true
		case e.u.env != nil:
			e.cur, e.has = e.u.env[e.u.key]
		default:
			e.cur, e.has = e.u.mp[e.u.mkey]
		}
	}
	return d, order
}

type envK struct {
	p   uintptr
	key ssa.Value
}
type mapK struct {
	p   uintptr
	key value
}

// ---- path condition & solver ----

func (m *Machine) pushPC(t *term.Term) {
	if t.IsConst() {
		if t.K == 0 {
			panic(pathEnd{kind: "assume-false"})
		}
		return
	}
	m.pc = append(m.pc, t)
	if len(m.pc) > m.Stats.MaxPC {
		m.Stats.MaxPC = len(m.pc)
	}
}

func (m *Machine) truncPC(n int) {
	m.pc = m.pc[:n]
	for _, pm := range m.models {
		if pm.okLen > n {
			pm.okLen = n
		}
	}
}

func (m *Machine) solverProc(needFP bool) *solver.Proc {
	if needFP && !m.sessionFP {
		// the session was opened as pure QF_BV (15x faster in z3); reopen it without a logic
		if m.inc != nil {
			m.inc.Close()
			m.inc = nil
		}
		m.sessionFP = true
	}
	if m.inc == nil || !m.inc.Alive() || m.printer.Defs > 400_000 {
		if m.inc != nil {
			m.inc.Close()
		}
		p, err := solver.Start("z3")
		if err != nil {
			enginePanic("cannot start z3: %v", err)
		}
		m.inc = p
		m.printer.Reset()
		m.printer.NoArrays = !m.sessionFP
		if !m.sessionFP {
			p.Send("(set-logic QF_BV)\n")
		}
		m.litName = map[int]string{}
		m.inScope = false
		m.asserted = nil
		if os.Getenv("GZV_SMTLOG") != "" {
			f, _ := os.Create(os.Getenv("GZV_SMTLOG"))
			p.Log = f
		}
	}
	return m.inc
}

func (m *Machine) lit(p *solver.Proc, t *term.Term) string {
	if n, ok := m.litName[t.ID]; ok {
		return n
	}
	var sb strings.Builder
	m.printer.Define(&sb, t)
	n := fmt.Sprintf("a%d", t.ID)
	fmt.Fprintf(&sb, "(declare-const %s Bool)\n(assert (= %s %s))\n", n, n, t.Ref())
	p.Send(sb.String())
	m.litName[t.ID] = n
	return n
}

// check decides satisfiability of pc ∧ extra with the incremental solver.
func (m *Machine) check(extra *term.Term, timeoutMs int) solver.Result {
	if extra.IsConst() && extra.K == 0 {
		return solver.Unsat
	}
	// model pool
	for _, pm := range m.models {
		if m.modelSatisfies(pm, extra) {
			m.Stats.FeasByModel++
			return solver.Sat
		}
	}
	if m.mutateSearch(extra) {
		m.Stats.FeasByModel++
		return solver.Sat
	}
	if res, mod := m.truthTableCost(extra, 16, 3_000_000); res != solver.Unknown {
		m.Stats.FeasByModel++
		if res == solver.Sat {
			m.models = append(m.models, &poolModel{m: mod})
			if len(m.models) > 32 {
				m.models = m.models[1:]
			}
		}
		return res
	}
	m.Stats.FeasQueries++
	needFP := extra.FP
	for _, c := range m.pc {
		if c.FP {
			needFP = true
			break
		}
	}
	if needFP {
		return m.checkFreshFP(extra, timeoutMs)
	}
	p := m.solverProc(needFP)
	roots, sliced := m.sliceFor(extra)
	var decls strings.Builder
	expr := "true"
	if len(roots) > 0 {
		expr = m.printer.LetConj(roots, &decls)
	}
	if m.inScope {
		p.Send("(pop 1)\n")
	}
	p.Send(decls.String())
	m.inScope = true
	tq := time.Now()
	r := p.CheckSat("(push 1)\n(assert "+expr+")\n", timeoutMs)
	if os.Getenv("GZV_QLOG") != "" {
		fmt.Fprintf(os.Stderr, "Q %s %dms pc=%d @%s %s\n", r, time.Since(tq).Milliseconds(), len(m.pc), m.where(m.cur), extra.String())
	}
	if r == solver.Sat {
		if !m.harvestModel(p, roots, extra, sliced) && sliced {
			// the slice model could not be extended: ask again with the whole path condition
			m.NoSlice = true
			r = m.check(extra, timeoutMs)
			m.NoSlice = false
		}
	}
	return r
}

// checkFreshFP decides pc ∧ extra for floating-point queries with a portfolio of fresh solver
// processes (cvc5 is several times faster than z3 on these; incremental z3 is slower still).
func (m *Machine) checkFreshFP(extra *term.Term, timeoutMs int) solver.Result {
	roots := make([]*term.Term, 0, len(m.pc)+1)
	roots = append(roots, m.pc...)
	if !extra.IsConst() {
		roots = append(roots, extra)
	}
	var sb strings.Builder
	pr := term.NewPrinter()
	expr := "true"
	if len(roots) > 0 {
		expr = pr.LetConj(roots, &sb)
	}
	fmt.Fprintf(&sb, "(assert %s)\n", expr)
	vars := term.CollectVars(roots...)
	names := make([]string, len(vars))
	for i, v := range vars {
		names[i] = v.Ref()
	}
	to := time.Duration(timeoutMs) * time.Millisecond * 6
	tq := time.Now()
	be := m.Backends
	if len(be) == 0 || (len(be) == 1 && be[0] == "z3") {
		be = []string{"cvc5", "z3"}
	}
	fr := solver.SolveFresh(sb.String(), names, be, to)
	if os.Getenv("GZV_QLOG") != "" {
		fmt.Fprintf(os.Stderr, "QFP %s %dms (%s) pc=%d %s\n", fr.Res, time.Since(tq).Milliseconds(), fr.Backend, len(m.pc), extra.String())
	}
	if fr.Res == solver.Sat {
		mod := term.NewModel()
		for _, v := range vars {
			if x, ok := fr.Values[v.Ref()]; ok {
				mod.Set(v, x)
			}
		}
		pm := &poolModel{m: mod}
		if m.modelSatisfies(pm, extra) {
			m.models = append(m.models, pm)
			if len(m.models) > 32 {
				m.models = m.models[1:]
			}
		}
	}
	return fr.Res
}

// varsOf returns the variables of t (cached).
func (m *Machine) varsOf(t *term.Term) []*term.Term {
	if v, ok := m.varCache[t.ID]; ok {
		return v
	}
	v := term.CollectVars(t)
	m.varCache[t.ID] = v
	return v
}

// sliceFor returns the conjuncts of the path condition that share variables (transitively) with
// extra, plus extra itself (constraint independence). The remainder is satisfiable on its own and
// shares no variable with the slice, so sat/unsat of the slice equals that of the whole.
func (m *Machine) sliceFor(extra *term.Term) ([]*term.Term, bool) {
	all := func() []*term.Term {
		roots := make([]*term.Term, 0, len(m.pc)+1)
		roots = append(roots, m.pc...)
		if !extra.IsConst() {
			roots = append(roots, extra)
		}
		return roots
	}
	if m.NoSlice || extra.IsConst() || len(m.pc) < 3 {
		return all(), false
	}
	// need a pooled model of the whole pc to extend slice models with
	have := false
	for _, pm := range m.models {
		if m.modelSatisfies(pm, m.C.True) {
			have = true
			break
		}
	}
	if !have {
		return all(), false
	}
	inSlice := map[int]bool{}
	for _, v := range m.varsOf(extra) {
		inSlice[v.ID] = true
	}
	if len(inSlice) == 0 {
		return all(), false
	}
	taken := make([]bool, len(m.pc))
	for changed := true; changed; {
		changed = false
		for i, c := range m.pc {
			if taken[i] {
				continue
			}
			vs := m.varsOf(c)
			hit := false
			for _, v := range vs {
				if inSlice[v.ID] {
					hit = true
					break
				}
			}
			if hit {
				taken[i] = true
				changed = true
				for _, v := range vs {
					inSlice[v.ID] = true
				}
			}
		}
	}
	roots := make([]*term.Term, 0, len(m.pc)+1)
	n := 0
	for i, c := range m.pc {
		if taken[i] {
			roots = append(roots, c)
			n++
		}
	}
	roots = append(roots, extra)
	return roots, n < len(m.pc)
}

func (m *Machine) modelSatisfies(pm *poolModel, extra *term.Term) bool {
	for pm.okLen < len(m.pc) {
		if pm.m.Eval(m.pc[pm.okLen]) == 0 {
			return false
		}
		pm.okLen++
	}
	return pm.m.Eval(extra) != 0
}

// mutateSearch looks for a model of pc ∧ extra near the pooled models by re-randomising the
// variables extra depends on. A hit is a genuine witness (it is evaluated), a miss means nothing.
func (m *Machine) mutateSearch(extra *term.Term) bool {
	if len(m.models) == 0 {
		return false
	}
	vars := term.CollectVarsLimit(extra, 6)
	if len(vars) == 0 {
		return false
	}
	var bases []*poolModel
	for i := len(m.models) - 1; i >= 0 && len(bases) < 3; i-- {
		pm := m.models[i]
		if m.modelSatisfies(pm, m.C.True) {
			bases = append(bases, pm)
		}
	}
	for _, base := range bases {
		for try := 0; try < 10; try++ {
			mod := base.m.Clone()
			nmut := 1 + m.rng.Intn(len(vars))
			for k := 0; k < nmut; k++ {
				v := vars[m.rng.Intn(len(vars))]
				old := mod.Vals[v.ID]
				var nv uint64
				w := uint(v.Sort.W)
				if v.Sort.K == term.KBool {
					w = 1
				}
				switch m.rng.Intn(7) {
				case 0:
					nv = 0
				case 1:
					nv = ^uint64(0)
				case 2:
					nv = uint64(1) << uint(m.rng.Intn(int(w)))
				case 3:
					nv = old ^ (uint64(1) << uint(m.rng.Intn(int(w))))
				case 4:
					nv = old & m.rng.Uint64()
				case 5:
					nv = uint64(m.rng.Intn(300))
				default:
					nv = m.rng.Uint64()
				}
				if w < 64 {
					nv &= (uint64(1) << w) - 1
				}
				mod.Set(v, nv)
			}
			pm := &poolModel{m: mod}
			if m.modelSatisfies(pm, extra) {
				m.models = append(m.models, pm)
				if len(m.models) > 32 {
					m.models = m.models[1:]
				}
				return true
			}
		}
	}
	return false
}

func (m *Machine) harvestModel(p *solver.Proc, roots []*term.Term, extra *term.Term, sliced bool) bool {
	vars := term.CollectVars(roots...)
	names := make([]string, len(vars))
	for i, v := range vars {
		names[i] = v.Ref()
	}
	vals, ok := p.GetValues(names)
	if !ok {
		return false
	}
	var mod *term.Model
	if sliced {
		for i := len(m.models) - 1; i >= 0; i-- {
			if m.modelSatisfies(m.models[i], m.C.True) {
				mod = m.models[i].m.Clone()
				break
			}
		}
		if mod == nil {
			return false
		}
	} else {
		mod = term.NewModel()
	}
	for _, v := range vars {
		if x, ok := vals[v.Ref()]; ok {
			mod.Set(v, x)
		}
	}
	pm := &poolModel{m: mod}
	// sanity: the model must satisfy what the solver said it satisfies (guards the encoder)
	if !m.modelSatisfies(pm, extra) {
		return false
	}
	m.models = append(m.models, pm)
	if len(m.models) > 32 {
		m.models = m.models[1:]
	}
	return true
}

// feasible reports whether pc ∧ c may be satisfiable (unknown counts as feasible).
func (m *Machine) feasible(c *term.Term) bool {
	return m.check(c, m.FeasTimeoutMs) != solver.Unsat
}

// ---- decisions (forking by re-execution) ----

func (m *Machine) choose(n int, vals []uint64) (int, []uint64) {
	if m.mergeLvl > 0 {
		panic(abortMerge{"fork inside merge"})
	}
	if m.decPos < len(m.decs) {
		d := m.decs[m.decPos]
		m.decPos++
		return d.choice, d.vals
	}
	m.decs = append(m.decs, decision{choice: 0, n: n, vals: vals})
	m.decPos++
	if n > 1 {
		m.Stats.Forks++
	}
	return 0, vals
}

// nextPath advances the decision vector; false when exploration is complete.
func (m *Machine) nextPath() bool {
	for len(m.decs) > 0 {
		d := &m.decs[len(m.decs)-1]
		if d.choice+1 < d.n {
			d.choice++
			return true
		}
		m.decs = m.decs[:len(m.decs)-1]
	}
	return false
}

// branch decides a symbolic boolean outside of If instructions (e.g. inside intrinsics):
// always forks, never merges.
func (m *Machine) branch(c *term.Term) bool {
	if c.IsConst() {
		return c.K != 0
	}
	if m.mergeLvl > 0 {
		panic(abortMerge{"branch inside merge"})
	}
	if m.decPos < len(m.decs) {
		d := m.decs[m.decPos]
		m.decPos++
		dir := d.vals[d.choice] != 0
		if d.n == 2 {
			if dir {
				m.pushPC(c)
			} else {
				m.pushPC(m.C.Not(c))
			}
		}
		return dir
	}
	tf := m.feasible(c)
	ff := true
	if tf {
		ff = m.feasible(m.C.Not(c))
	}
	var vals []uint64
	if tf {
		vals = append(vals, 1)
	}
	if ff {
		vals = append(vals, 0)
	}
	if len(vals) == 0 {
		panic(pathEnd{kind: "dead"})
	}
	ch, vals := m.choose(len(vals), vals)
	dir := vals[ch] != 0
	if len(vals) == 2 {
		if dir {
			m.pushPC(c)
		} else {
			m.pushPC(m.C.Not(c))
		}
	}
	return dir
}

// concretize forks over all feasible values of t.
func (m *Machine) concretize(t *term.Term, limit int) uint64 {
	if t.IsConst() {
		return t.K
	}
	m.Stats.Concretized++
	if m.decPos < len(m.decs) {
		d := m.decs[m.decPos]
		m.decPos++
		v := d.vals[d.choice]
		m.pushPC(m.C.Eq(t, m.constLike(t, v)))
		return v
	}
	if m.mergeLvl > 0 {
		panic(abortMerge{"concretize inside merge"})
	}
	var vals []uint64
	ex := m.C.True
	for {
		r := m.check(ex, m.FeasTimeoutMs*4)
		if r == solver.Unsat {
			break
		}
		if r == solver.Unknown {
			m.incomplete("concretize: solver unknown for " + t.String())
			break
		}
		// newest pool model satisfies pc ∧ ex
		var v uint64
		found := false
		for i := len(m.models) - 1; i >= 0; i-- {
			if m.modelSatisfies(m.models[i], ex) {
				v = m.models[i].m.Eval(t)
				found = true
				break
			}
		}
		if !found {
			m.incomplete("concretize: no model")
			break
		}
		vals = append(vals, v)
		ex = m.C.And(ex, m.C.Not(m.C.Eq(t, m.constLike(t, v))))
		if len(vals) > limit {
			m.incomplete(fmt.Sprintf("concretize: more than %d values for %s", limit, t))
			break
		}
	}
	if len(vals) == 0 {
		panic(pathEnd{kind: "dead", msg: "no feasible value"})
	}
	sort.Slice(vals, func(i, j int) bool { return vals[i] < vals[j] })
	ch, vals := m.choose(len(vals), vals)
	v := vals[ch]
	m.pushPC(m.C.Eq(t, m.constLike(t, v)))
	return v
}

func (m *Machine) constLike(t *term.Term, v uint64) *term.Term {
	switch t.Sort.K {
	case term.KBool:
		return m.C.Bool(v != 0)
	case term.KBV:
		return m.C.BV(t.Sort.W, v)
	}
	return m.C.FFromBits(m.C.BV(64, v))
}

func (m *Machine) incomplete(msg string) {
	for _, s := range m.Incomplete {
		if s == msg {
			return
		}
	}
	m.Incomplete = append(m.Incomplete, msg)
}

// ---- obligations ----

func (m *Machine) inputVals(mod func(*term.Term) uint64) []InVal {
	out := make([]InVal, len(m.Inputs))
	for i, in := range m.Inputs {
		out[i] = InVal{Kind: in.Kind, Val: mod(in.T)}
	}
	return out
}

// obligation: under pc, bad must be unsatisfiable. Returns true if discharged.
func (m *Machine) obligation(kind, msg, where string, bad *term.Term) bool {
	m.Stats.Obligations++
	if bad.IsConst() && bad.K == 0 {
		m.Stats.Trivial++
		return true
	}
	var r solver.Result
	var model func(*term.Term) uint64
	// cheap exact decision first: at most 12 free input bits in the whole query
	if res, mod := m.truthTableCost(bad, 16, 5_000_000); res != solver.Unknown {
		m.Stats.ByTruthTable++
		if res == solver.Unsat {
			m.Stats.SolverUnsat++
			return true
		}
		r, model = res, mod.Eval
	}
	if r == solver.Unknown && !m.FreshFirst {
		r = m.check(bad, m.FeasTimeoutMs)
		if r == solver.Unknown && !term.Compile(append(append([]*term.Term{}, m.pc...), bad)...).Hard() {
			// a large but easy query (bit shuffling, comparisons) that missed the short limit on a busy
			// machine: give the same session a long limit before falling back to fresh solvers
			lim := int(m.OblTimeout.Milliseconds())
			if lim < 120_000 {
				lim = 120_000
			}
			r = m.check(bad, lim)
		}
		if r == solver.Sat {
			for i := len(m.models) - 1; i >= 0; i-- {
				if m.modelSatisfies(m.models[i], bad) {
					pm := m.models[i]
					model = pm.m.Eval
					break
				}
			}
			if model == nil {
				r = solver.Unknown // model did not validate in the evaluator; ask a fresh solver
			}
		}
	}
	if r == solver.Unknown {
		// the incremental session gave up: with at most 16 free input bits an exact enumeration of a
		// few hundred million node evaluations beats a minutes-long fresh solve (and finds
		// counter-models in Galois-field arithmetic that the solvers search for in vain)
		if res, mod := m.truthTableCost(bad, 16, 400_000_000); res != solver.Unknown {
			m.Stats.ByTruthTable++
			r = res
			if mod != nil {
				model = mod.Eval
			}
		}
	}
	if r == solver.Unknown {
		fr := m.solveFresh(bad)
		r = fr.Res
		if r == solver.Sat {
			mod := term.NewModel()
			for _, in := range m.Inputs {
				if in.T.Op == term.OVar {
					mod.Set(in.T, fr.Values[in.T.Ref()])
				}
			}
			for _, v := range term.CollectVars(append(append([]*term.Term{}, m.pc...), bad)...) {
				if x, ok := fr.Values[v.Ref()]; ok {
					mod.Set(v, x)
				}
			}
			model = mod.Eval
			// a counter-model is only believed if it satisfies the query in the evaluator (a back end
			// that fails to return values, or mis-models an operator, must not produce a finding)
			okModel := mod.Eval(bad) != 0
			for _, c := range m.pc {
				okModel = okModel && mod.Eval(c) != 0
			}
			if !okModel {
				m.Stats.BadModels++
				r, model = solver.Unknown, nil
			}
		}
	}
	if r == solver.Unknown {
		// few free input bits: decide the encoded formula by its truth table (complete for the
		// SMT term the solvers could not finish; counted separately in the evidence)
		if res, mod := m.truthTableCost(bad, 20, 2_000_000_000); res != solver.Unknown {
			r = res
			m.Stats.ByTruthTable++
			if mod != nil {
				model = mod.Eval
			}
		}
	}
	switch r {
	case solver.Unsat:
		m.Stats.SolverUnsat++
		return true
	case solver.Sat:
		m.Stats.SolverSat++
		f := Finding{Kind: kind, Msg: msg, Where: where, Inputs: m.inputVals(model)}
		m.Findings = append(m.Findings, f)
		return false
	default:
		m.Stats.Inconclusive++
		m.incomplete(fmt.Sprintf("inconclusive %s: %s at %s", kind, msg, where))
		return false
	}
}

// truthTable decides pc ∧ bad by enumerating every assignment of the variables it mentions, when
// they total at most maxBits bits.
func (m *Machine) truthTable(bad *term.Term, maxBits int) (solver.Result, *term.Model) {
	return m.truthTableCost(bad, maxBits, 200_000_000)
}

func (m *Machine) truthTableCost(bad *term.Term, maxBits int, maxCost uint64) (solver.Result, *term.Model) {
	roots := append(append([]*term.Term{}, m.pc...), bad)
	comp := term.Compile(roots...)
	bitsTotal := 0
	for _, v := range comp.Vars {
		switch v.Sort.K {
		case term.KBool:
			bitsTotal++
		case term.KBV:
			bitsTotal += v.Sort.W
		default:
			return solver.Unknown, nil
		}
	}
	if maxCost <= 5_000_000 && !comp.Hard() {
		// the solver answers such queries in milliseconds: enumerate only when that is cheaper still
		maxCost = 100_000
	}
	if bitsTotal > maxBits || uint64(comp.Size())<<uint(bitsTotal) > maxCost {
		return solver.Unknown, nil
	}
	vv := make([]uint64, len(comp.Vars))
	widths := make([]uint, len(comp.Vars))
	for i, v := range comp.Vars {
		widths[i] = 1
		if v.Sort.K == term.KBV {
			widths[i] = uint(v.Sort.W)
		}
	}
	for n := uint64(0); n < uint64(1)<<uint(bitsTotal); n++ {
		x := n
		for i, w := range widths {
			vv[i] = x & (uint64(1)<<w - 1)
			x >>= w
		}
		comp.RunVals(vv)
		ok := true
		for _, r := range roots {
			if comp.Value(r) == 0 {
				ok = false
				break
			}
		}
		if ok {
			mod := term.NewModel()
			for i, v := range comp.Vars {
				mod.Set(v, vv[i])
			}
			return solver.Sat, mod
		}
	}
	return solver.Unsat, nil
}

func (m *Machine) solveFresh(bad *term.Term) solver.FreshResult {
	var sb strings.Builder
	pr := term.NewPrinter()
	roots := append(append([]*term.Term{}, m.pc...), bad)
	pr.Define(&sb, roots...)
	for _, c := range roots {
		fmt.Fprintf(&sb, "(assert %s)\n", c.Ref())
	}
	vars := term.CollectVars(roots...)
	names := make([]string, len(vars))
	for i, v := range vars {
		names[i] = v.Ref()
	}
	if f := os.Getenv("GZV_DUMP_FRESH"); f != "" {
		os.WriteFile(fmt.Sprintf("%s.%d.smt2", f, m.Stats.Obligations), []byte(sb.String()+"(check-sat)\n"), 0o644)
	}
	return solver.SolveFresh(sb.String(), names, m.Backends, m.OblTimeout)
}

// checkPanic records a feasible run-time panic condition and continues under its negation.
func (m *Machine) checkPanic(fr *frame, bad *term.Term, msg string) {
	if bad.IsConst() {
		if bad.K != 0 {
			m.targetPanic(fr, msg)
		}
		return
	}
	where := m.where(fr)
	if !m.obligation("panic", msg, where, bad) {
		m.Stats.Panics++
		m.pushPC(m.C.Not(bad))
	}
}

// targetPanic ends the path with a definite panic (under the current pc).
func (m *Machine) targetPanic(fr *frame, msg string) {
	where := m.where(fr)
	m.Stats.Obligations++
	// the panic is real iff pc is satisfiable
	r := m.check(m.C.True, m.FeasTimeoutMs)
	if r == solver.Unknown {
		r = m.solveFresh(m.C.True).Res
	}
	if r != solver.Unsat {
		var model func(*term.Term) uint64
		for i := len(m.models) - 1; i >= 0; i-- {
			if m.modelSatisfies(m.models[i], m.C.True) {
				model = m.models[i].m.Eval
				break
			}
		}
		if model == nil {
			if len(m.pc) == 0 {
				model = term.NewModel().Eval
			} else {
				fr2 := m.solveFresh(m.C.True)
				if fr2.Res == solver.Sat {
					mod := term.NewModel()
					for _, v := range term.CollectVars(m.pc...) {
						mod.Set(v, fr2.Values[v.Ref()])
					}
					model = mod.Eval
				}
			}
		}
		if model != nil {
			m.Stats.SolverSat++
			m.Stats.Panics++
			m.Findings = append(m.Findings, Finding{Kind: "panic", Msg: msg, Where: where, Inputs: m.inputVals(model)})
		} else {
			m.Stats.Inconclusive++
			m.incomplete("inconclusive panic feasibility: " + msg + " at " + where)
		}
	} else {
		m.Stats.SolverUnsat++
	}
	panic(pathEnd{kind: "panic", msg: msg})
}

func (m *Machine) where(fr *frame) string {
	if fr == nil {
		return ""
	}
	var parts []string
	for f := fr; f != nil && len(parts) < 4; f = f.caller {
		pos := f.curPos
		s := f.fn.String()
		if pos != token.NoPos {
			p := m.prog.Fset.Position(pos)
			s += fmt.Sprintf("(%s:%d)", shortFile(p.Filename), p.Line)
		}
		parts = append(parts, s)
	}
	return strings.Join(parts, " <- ")
}

func shortFile(f string) string {
	if i := strings.LastIndex(f, "/"); i >= 0 {
		return f[i+1:]
	}
	return f
}

// sharedWrite records a store, made while a harness runs, into a cell that was reachable from a
// package-level variable when package initialisation finished (C18: such a store is a data race as
// soon as two goroutines use the library at the same time).
func (m *Machine) sharedWrite(what string) {
	if !m.sharedOn || m.lockDepth > 0 {
		return
	}
	where := m.where(m.cur)
	key := what + " @ " + where
	if m.sharedSeen[key] {
		return
	}
	m.sharedSeen[key] = true
	m.sharedHits = append(m.sharedHits, key)
	var model func(*term.Term) uint64
	for i := len(m.models) - 1; i >= 0; i-- {
		if m.modelSatisfies(m.models[i], m.C.True) {
			model = m.models[i].m.Eval
			break
		}
	}
	if model == nil && len(m.pc) > 0 {
		if fr2 := m.solveFresh(m.C.True); fr2.Res == solver.Sat {
			mod := term.NewModel()
			for _, v := range term.CollectVars(m.pc...) {
				mod.Set(v, fr2.Values[v.Ref()])
			}
			model = mod.Eval
		}
	}
	if model == nil {
		if len(m.pc) > 0 {
			m.incomplete("shared write on a path whose feasibility is undecided: " + key)
			return
		}
		model = term.NewModel().Eval
	}
	m.Findings = append(m.Findings, Finding{Kind: "shared-write", Msg: what, Where: where, Inputs: m.inputVals(model)})
}

// MarkShared collects every cell and map reachable from the package-level variables of the given
// packages; call it after RunInit.
func (m *Machine) MarkShared(pkgs []*ssa.Package) int {
	m.shared = map[*value]bool{}
	m.sharedMaps = map[uintptr]bool{}
	var walk func(v value, depth int)
	walkCells := func(xs []value, depth int) {
		for i := range xs {
			if !m.shared[&xs[i]] {
				m.shared[&xs[i]] = true
				walk(xs[i], depth+1)
			}
		}
	}
	walk = func(v value, depth int) {
		if depth > 10000 {
			return
		}
		switch x := v.(type) {
		case *value:
			if x == nil || m.shared[x] {
				return
			}
			m.shared[x] = true
			walk(*x, depth+1)
		case array:
			walkCells(x, depth)
		case structure:
			walkCells(x, depth)
		case []value:
			walkCells(x[:cap(x)], depth)
		case tuple:
			walkCells(x, depth)
		case iface:
			walk(x.v, depth+1)
		case map[value]value:
			if x == nil {
				return
			}
			id := reflect.ValueOf(x).Pointer()
			if m.sharedMaps[id] {
				return
			}
			m.sharedMaps[id] = true
			for k, e := range x {
				walk(k, depth+1)
				walk(e, depth+1)
			}
		case *closure:
			if x != nil {
				walkCells(x.Env, depth)
			}
		}
	}
	for _, p := range pkgs {
		for _, mem := range p.Members {
			if g, ok := mem.(*ssa.Global); ok {
				if strings.HasPrefix(g.Name(), "verif") || strings.HasPrefix(g.Name(), "zzVerif") {
					continue
				}
				if c := m.globals[g]; c != nil {
					walk(c, 0)
				}
			}
		}
	}
	m.sharedSeen = map[string]bool{}
	return len(m.shared)
}

// ResetForTask clears per-task state (terms, solver session, pooled models).
func (m *Machine) ResetForTask() {
	m.C = term.NewCtx()
	m.varCache = map[int][]*term.Term{}
	m.models = nil
	m.pc = nil
	m.litName = map[int]string{}
	m.printer.Reset()
	m.inScope = false
	m.asserted = nil
	if m.inc != nil && m.inc.Alive() {
		m.inc.Send("(reset)\n(set-option :produce-models true)\n")
		if !m.sessionFP {
			m.inc.Send("(set-logic QF_BV)\n")
		}
	}
	m.funcsEncoded = map[*ssa.Function]bool{}
	m.Incomplete = nil
}
