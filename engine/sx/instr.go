package sx

import (
	"fmt"
	"go/token"
	"go/types"

	"golang.org/x/tools/go/ssa"

	"verif/engine/term"
)

// symPtr is the address of base[idx] for a symbolic index (scalar element types only).
type symPtr struct {
	base []value
	idx  *term.Term // 64-bit, already bounds-checked against len(base)
}

func (m *Machine) visitInstr(fr *frame, instr ssa.Instruction) continuation {
	switch instr := instr.(type) {
	case *ssa.DebugRef:
		// no-op

	case *ssa.UnOp:
		fr.set(instr, m.unop(fr, instr, fr.get(instr.X)))

	case *ssa.BinOp:
		fr.set(instr, m.binop(fr, instr.Op, instr.X.Type(), instr.Y.Type(), fr.get(instr.X), fr.get(instr.Y)))

	case *ssa.Call:
		fn, args := m.prepareCall(fr, &instr.Call)
		fr.set(instr, m.call(fr, instr.Pos(), fn, args))

	case *ssa.ChangeInterface:
		fr.set(instr, fr.get(instr.X))

	case *ssa.ChangeType:
		fr.set(instr, fr.get(instr.X))

	case *ssa.Convert:
		fr.set(instr, m.conv(fr, instr.Type(), instr.X.Type(), fr.get(instr.X)))

	case *ssa.MakeInterface:
		fr.set(instr, iface{t: instr.X.Type(), v: fr.get(instr.X)})

	case *ssa.Extract:
		fr.set(instr, fr.get(instr.Tuple).(tuple)[instr.Index])

	case *ssa.Slice:
		fr.set(instr, m.slice(fr, instr, fr.get(instr.X), fr.get(instr.Low), fr.get(instr.High), fr.get(instr.Max)))

	case *ssa.Return:
		switch len(instr.Results) {
		case 0:
		case 1:
			fr.result = fr.get(instr.Results[0])
		default:
			var res []value
			for _, r := range instr.Results {
				res = append(res, fr.get(r))
			}
			fr.result = tuple(res)
		}
		fr.block = nil
		return kReturn

	case *ssa.RunDefers:
		m.runDefers(fr)

	case *ssa.Panic:
		m.targetPanic(fr, "explicit panic: "+toString(fr.get(instr.X)))

	case *ssa.Store:
		m.store(fr, deref(instr.Addr.Type()), fr.get(instr.Addr), fr.get(instr.Val))

	case *ssa.If:
		switch c := fr.get(instr.Cond).(type) {
		case bool:
			succ := 1
			if c {
				succ = 0
			}
			fr.prevBlock, fr.block = fr.block, fr.block.Succs[succ]
		case *term.Term:
			m.symbolicIf(fr, instr, c)
			if fr.block == nil {
				return kReturn
			}
		default:
			panic(fmt.Sprintf("if on %T", c))
		}
		return kJump

	case *ssa.Jump:
		fr.prevBlock, fr.block = fr.block, fr.block.Succs[0]
		return kJump

	case *ssa.Defer:
		fn, args := m.prepareCall(fr, &instr.Call)
		if fr.get(instr.DeferStack) != nil {
			enginePanic("defer stacks not supported")
		}
		fr.defers = &deferred{fn: fn, args: args, instr: instr, tail: fr.defers}

	case *ssa.Alloc:
		var addr *value
		if instr.Heap {
			addr = new(value)
			*addr = zero(deref(instr.Type()))
			fr.set(instr, addr)
		} else {
			addr = fr.env[instr].(*value)
			m.write(addr, zero(deref(instr.Type())))
		}

	case *ssa.MakeSlice:
		n := m.concInt(fr, fr.get(instr.Len), 1<<16)
		c := m.concInt(fr, fr.get(instr.Cap), 1<<16)
		if n < 0 || c < n || c > 1<<28 {
			m.targetPanic(fr, fmt.Sprintf("makeslice: len %d / cap %d out of range", n, c))
		}
		slice := make([]value, c)
		tElt := instr.Type().Underlying().(*types.Slice).Elem()
		z := zero(tElt)
		_, agg1 := z.(structure)
		_, agg2 := z.(array)
		for i := range slice {
			if agg1 || agg2 {
				slice[i] = zero(tElt)
			} else {
				slice[i] = z
			}
		}
		fr.set(instr, slice[:n])

	case *ssa.MakeMap:
		fr.set(instr, makeMap(instr.Type().Underlying().(*types.Map).Key(), 0))

	case *ssa.Range:
		fr.set(instr, m.rangeIter(fr.get(instr.X), instr.X.Type()))

	case *ssa.Next:
		fr.set(instr, fr.get(instr.Iter).(iter).next())

	case *ssa.FieldAddr:
		x := fr.get(instr.X)
		p, ok := x.(*value)
		if !ok {
			enginePanic("FieldAddr on %T at %s", x, m.where(fr))
		}
		if p == nil {
			m.targetPanic(fr, "nil pointer dereference")
		}
		fr.set(instr, &(*p).(structure)[instr.Field])

	case *ssa.Field:
		fr.set(instr, fr.get(instr.X).(structure)[instr.Field])

	case *ssa.IndexAddr:
		x := fr.get(instr.X)
		idx := fr.get(instr.Index)
		var base []value
		switch x := x.(type) {
		case []value:
			base = x
		case *value: // *array
			if x == nil {
				m.targetPanic(fr, "nil pointer dereference")
			}
			base = (*x).(array)
		default:
			panic(fmt.Sprintf("unexpected x type in IndexAddr: %T", x))
		}
		if it, ok := idx.(*term.Term); ok {
			it = m.C.Resize(it, 64, isSigned(instr.Index.Type()))
			bad := m.C.Not(m.C.Cmp(term.OBvULt, it, m.C.BV(64, uint64(len(base)))))
			m.checkPanic(fr, bad, fmt.Sprintf("index out of range (len %d)", len(base)))
			var elemT types.Type
			switch t := instr.X.Type().Underlying().(type) {
			case *types.Slice:
				elemT = t.Elem()
			case *types.Pointer:
				elemT = t.Elem().Underlying().(*types.Array).Elem()
			}
			if b, isBasic := elemT.Underlying().(*types.Basic); isBasic && b.Info()&types.IsString == 0 && len(base) > 0 {
				fr.set(instr, &symPtr{base: base, idx: it})
			} else {
				k := m.concretize(it, 1<<12)
				if k >= uint64(len(base)) {
					panic(pathEnd{kind: "dead"})
				}
				fr.set(instr, &base[k])
			}
			break
		}
		i := asInt64(idx)
		if i < 0 || i >= int64(len(base)) {
			m.targetPanic(fr, fmt.Sprintf("index out of range [%d] with length %d", i, len(base)))
		}
		fr.set(instr, &base[i])

	case *ssa.Index:
		fr.set(instr, m.index(fr, instr, fr.get(instr.X), fr.get(instr.Index)))

	case *ssa.Lookup:
		fr.set(instr, m.lookup(fr, instr, fr.get(instr.X), fr.get(instr.Index)))

	case *ssa.MapUpdate:
		mp := fr.get(instr.Map)
		key := m.concKey(fr, fr.get(instr.Key), instr.Key.Type())
		v := fr.get(instr.Value)
		switch mp := mp.(type) {
		case map[value]value:
			if mp == nil {
				m.targetPanic(fr, "assignment to entry in nil map")
			}
			m.mapSet(mp, key, v)
		default:
			enginePanic("unsupported map representation %T", mp)
		}

	case *ssa.TypeAssert:
		fr.set(instr, m.typeAssert(fr, instr, fr.get(instr.X).(iface)))

	case *ssa.MakeClosure:
		var bindings []value
		for _, binding := range instr.Bindings {
			bindings = append(bindings, fr.get(binding))
		}
		fr.set(instr, &closure{instr.Fn.(*ssa.Function), bindings})

	case *ssa.Phi:
		panic("unreachable: phi")

	default:
		enginePanic("UNSUPPORTED instruction: %T in %s", instr, fr.fn)
	}
	return kNext
}

func isSigned(t types.Type) bool {
	if b, ok := t.Underlying().(*types.Basic); ok {
		return b.Info()&types.IsUnsigned == 0
	}
	return true
}

// concInt turns an integer value into a concrete int64, forking over feasible values if symbolic.
func (m *Machine) concInt(fr *frame, v value, limit int) int64 {
	if t, ok := v.(*term.Term); ok {
		u := m.concretize(t, limit)
		return int64(u<<(64-uint(t.Sort.W))) >> (64 - uint(t.Sort.W)) // sign-extend; callers use signed ints
	}
	return asInt64(v)
}

// concKey makes a map key concrete.
func (m *Machine) concKey(fr *frame, k value, t types.Type) value {
	switch x := k.(type) {
	case *term.Term:
		u := m.concretize(x, 1<<12)
		return lowerConst(m.constLike(x, u), t)
	case symstr:
		bs := make([]byte, len(x.b))
		for i, b := range x.b {
			if bt, ok := b.(*term.Term); ok {
				bs[i] = byte(m.concretize(bt, 256))
			} else {
				bs[i] = b.(uint8)
			}
		}
		return string(bs)
	case iface:
		if x.t != nil {
			return iface{t: x.t, v: m.concKey(fr, x.v, x.t)}
		}
	}
	return k
}

func (m *Machine) load(fr *frame, T types.Type, addr value) value {
	switch a := addr.(type) {
	case *value:
		if a == nil {
			m.targetPanic(fr, "nil pointer dereference")
		}
		return load(T, a)
	case *symPtr:
		elems := make([]*term.Term, len(a.base))
		for i, e := range a.base {
			elems[i] = m.term(e)
		}
		return lowerTerm(m.C.Select(a.idx, elems), T)
	case foreignRef:
		return m.loadForeignGlobal(a.name, a.extra.(types.Type))
	}
	panic(fmt.Sprintf("load through %T", addr))
}

func (m *Machine) store(fr *frame, T types.Type, addr value, v value) {
	switch a := addr.(type) {
	case *value:
		if a == nil {
			m.targetPanic(fr, "nil pointer dereference")
		}
		m.storeRec(T, a, v)
	case *symPtr:
		vt := m.term(v)
		for i := range a.base {
			old := m.term(a.base[i])
			nv := m.C.Ite(m.C.Eq(a.idx, m.C.BV(64, uint64(i))), vt, old)
			m.write(&a.base[i], lowerTerm(nv, T))
		}
	default:
		panic(fmt.Sprintf("store through %T", addr))
	}
}

func (m *Machine) storeRec(T types.Type, addr *value, v value) {
	switch T := T.Underlying().(type) {
	case *types.Struct:
		lhs := (*addr).(structure)
		rhs := v.(structure)
		for i := range lhs {
			m.storeRec(T.Field(i).Type(), &lhs[i], rhs[i])
		}
	case *types.Array:
		lhs := (*addr).(array)
		rhs := v.(array)
		for i := range lhs {
			m.storeRec(T.Elem(), &lhs[i], rhs[i])
		}
	default:
		m.write(addr, v)
	}
}

func (m *Machine) index(fr *frame, instr *ssa.Index, x, idx value) value {
	var n int
	switch x := x.(type) {
	case array:
		n = len(x)
	case string:
		n = len(x)
	case symstr:
		n = len(x.b)
	default:
		panic(fmt.Sprintf("unexpected x type in Index: %T", x))
	}
	if it, ok := idx.(*term.Term); ok {
		it = m.C.Resize(it, 64, isSigned(instr.Index.Type()))
		bad := m.C.Not(m.C.Cmp(term.OBvULt, it, m.C.BV(64, uint64(n))))
		m.checkPanic(fr, bad, fmt.Sprintf("index out of range (len %d)", n))
		if n == 0 {
			panic(pathEnd{kind: "dead"})
		}
		elems := make([]*term.Term, n)
		switch x := x.(type) {
		case array:
			if _, basic := instr.Type().Underlying().(*types.Basic); !basic {
				k := m.concretize(it, 1<<12)
				return x[k]
			}
			for i := range x {
				elems[i] = m.term(x[i])
			}
		case string:
			for i := 0; i < n; i++ {
				elems[i] = m.C.BV(8, uint64(x[i]))
			}
		case symstr:
			for i := range x.b {
				elems[i] = m.term(x.b[i])
			}
		}
		return lowerTerm(m.C.Select(it, elems), instr.Type())
	}
	i := asInt64(idx)
	if i < 0 || i >= int64(n) {
		m.targetPanic(fr, fmt.Sprintf("index out of range [%d] with length %d", i, n))
	}
	switch x := x.(type) {
	case array:
		return x[i]
	case string:
		return x[i]
	case symstr:
		return x.b[i]
	}
	panic("unreachable")
}

func (m *Machine) lookup(fr *frame, instr *ssa.Lookup, x, idx value) value {
	switch x := x.(type) {
	case map[value]value:
		key := m.concKey(fr, idx, instr.Index.Type())
		v, ok := x[key]
		if !ok {
			v = zero(instr.X.Type().Underlying().(*types.Map).Elem())
		}
		if instr.CommaOk {
			v = tuple{v, ok}
		}
		return v
	case *hashmap:
		key := m.concKey(fr, idx, instr.Index.Type())
		var v value
		ok := false
		if x != nil {
			v = x.lookup(key.(hashable))
			ok = v != nil
		}
		if !ok {
			v = zero(instr.X.Type().Underlying().(*types.Map).Elem())
		}
		if instr.CommaOk {
			v = tuple{v, ok}
		}
		return v
	}
	panic(fmt.Sprintf("unexpected x type in Lookup: %T", x))
}

func (m *Machine) slice(fr *frame, instr *ssa.Slice, x, lo, hi, max value) value {
	var Len, Cap int
	switch x := x.(type) {
	case string:
		Len = len(x)
		Cap = Len
	case symstr:
		Len = len(x.b)
		Cap = Len
	case []value:
		Len = len(x)
		Cap = cap(x)
	case *value: // *array
		if x == nil {
			m.targetPanic(fr, "nil pointer dereference")
		}
		a := (*x).(array)
		Len = len(a)
		Cap = cap(a)
	}
	l := int64(0)
	if lo != nil {
		l = m.concInt(fr, lo, 1<<12)
	}
	h := int64(Len)
	if hi != nil {
		h = m.concInt(fr, hi, 1<<12)
	}
	mx := int64(Cap)
	if max != nil {
		mx = m.concInt(fr, max, 1<<12)
	}
	if l < 0 || h < l || mx < h || mx > int64(Cap) {
		m.targetPanic(fr, fmt.Sprintf("slice bounds out of range [%d:%d:%d] with capacity %d", l, h, mx, Cap))
	}
	switch x := x.(type) {
	case string:
		return x[l:h]
	case symstr:
		return mkStr(x.b[l:h])
	case []value:
		return x[l:h:mx]
	case *value:
		a := (*x).(array)
		return []value(a)[l:h:mx]
	}
	panic(fmt.Sprintf("slice: unexpected X type: %T", x))
}

func (m *Machine) typeAssert(fr *frame, instr *ssa.TypeAssert, itf iface) value {
	var v value
	err := ""
	if itf.t == nil {
		err = fmt.Sprintf("interface conversion: interface is nil, not %s", instr.AssertedType)
	} else if idst, ok := instr.AssertedType.Underlying().(*types.Interface); ok {
		v = itf
		if meth, _ := types.MissingMethod(itf.t, idst, true); meth != nil {
			err = fmt.Sprintf("interface conversion: %v is not %v: missing method %s", itf.t, idst, meth.Name())
		}
	} else if types.Identical(itf.t, instr.AssertedType) {
		v = itf.v
	} else {
		err = fmt.Sprintf("interface conversion: interface is %s, not %s", itf.t, instr.AssertedType)
	}
	if err != "" {
		if !instr.CommaOk {
			m.targetPanic(fr, err)
		}
		return tuple{zero(instr.AssertedType), false}
	}
	if instr.CommaOk {
		return tuple{v, true}
	}
	return v
}

func (m *Machine) unop(fr *frame, instr *ssa.UnOp, x value) value {
	if instr.Op == token.MUL {
		return m.load(fr, deref(instr.X.Type()), x)
	}
	if t, ok := x.(*term.Term); ok {
		switch instr.Op {
		case token.NOT:
			return lowerTerm(m.C.Not(t), instr.Type())
		case token.SUB:
			if t.Sort.K == term.KFP {
				return lowerTerm(m.C.FUn(term.OFNeg, t), instr.Type())
			}
			return lowerTerm(m.C.Un(term.OBvNeg, t), instr.Type())
		case token.XOR:
			return lowerTerm(m.C.Un(term.OBvNot, t), instr.Type())
		}
		panic("symbolic unop " + instr.Op.String())
	}
	return unop(instr, x)
}
