package sx

// Models of golang.org/x/text as used by gozxing. Values of that module are opaque handles
// (foreignRef) carrying the native Go object; calls on concrete data run the real x/text code
// natively, calls on symbolic data go through small Go models in package zzverif that are
// themselves interpreted (UTF-8, ISO-8859-1, US-ASCII), and anything else is refused loudly.

import (
	"fmt"
	"go/token"
	"go/types"
	"strings"

	"golang.org/x/text/encoding"
	"golang.org/x/text/encoding/charmap"
	"golang.org/x/text/encoding/ianaindex"
	"golang.org/x/text/encoding/japanese"
	"golang.org/x/text/encoding/korean"
	"golang.org/x/text/encoding/simplifiedchinese"
	"golang.org/x/text/encoding/traditionalchinese"
	"golang.org/x/text/encoding/unicode"
	"golang.org/x/text/transform"

	"golang.org/x/tools/go/ssa"

	"verif/engine/term"
)

const xt = "golang.org/x/text/encoding"

var nativeGlobals = map[string]interface{}{
	xt + "/charmap.CodePage437":              charmap.CodePage437,
	xt + "/charmap.ISO8859_1":                charmap.ISO8859_1,
	xt + "/charmap.ISO8859_2":                charmap.ISO8859_2,
	xt + "/charmap.ISO8859_3":                charmap.ISO8859_3,
	xt + "/charmap.ISO8859_4":                charmap.ISO8859_4,
	xt + "/charmap.ISO8859_5":                charmap.ISO8859_5,
	xt + "/charmap.ISO8859_6":                charmap.ISO8859_6,
	xt + "/charmap.ISO8859_7":                charmap.ISO8859_7,
	xt + "/charmap.ISO8859_8":                charmap.ISO8859_8,
	xt + "/charmap.ISO8859_9":                charmap.ISO8859_9,
	xt + "/charmap.ISO8859_10":               charmap.ISO8859_10,
	xt + "/charmap.ISO8859_13":               charmap.ISO8859_13,
	xt + "/charmap.ISO8859_14":               charmap.ISO8859_14,
	xt + "/charmap.ISO8859_15":               charmap.ISO8859_15,
	xt + "/charmap.ISO8859_16":               charmap.ISO8859_16,
	xt + "/charmap.Windows1250":              charmap.Windows1250,
	xt + "/charmap.Windows1251":              charmap.Windows1251,
	xt + "/charmap.Windows1252":              charmap.Windows1252,
	xt + "/charmap.Windows1256":              charmap.Windows1256,
	xt + "/japanese.ShiftJIS":                japanese.ShiftJIS,
	xt + "/japanese.EUCJP":                   japanese.EUCJP,
	xt + "/simplifiedchinese.GB18030":        simplifiedchinese.GB18030,
	xt + "/traditionalchinese.Big5":          traditionalchinese.Big5,
	xt + "/korean.EUCKR":                     korean.EUCKR,
	xt + "/unicode.UTF8":                     unicode.UTF8,
	xt + "/ianaindex.IANA":                   ianaindex.IANA,
	xt + "/ianaindex.MIME":                   ianaindex.MIME,
	xt + "/ianaindex.MIB":                    ianaindex.MIB,
	"golang.org/x/text/encoding.Nop":         encoding.Nop,
	"golang.org/x/text/encoding.Replacement": encoding.Replacement,
}

func nativeName(e interface{}) string {
	for k, v := range nativeGlobals {
		if func() (eq bool) {
			defer func() { recover() }()
			return v == e
		}() {
			return k
		}
	}
	if s, ok := e.(fmt.Stringer); ok {
		return "dyn:" + s.String()
	}
	return fmt.Sprintf("dyn:%T", e)
}

// loadForeignGlobal yields the value stored in a foreign package-level variable.
func (m *Machine) loadForeignGlobal(name string, T types.Type) value {
	nat, ok := nativeGlobals[name]
	if !ok {
		enginePanic("UNSUPPORTED foreign global %s", name)
	}
	ref := foreignRef{name: name, extra: nat}
	if _, isIface := T.Underlying().(*types.Interface); isIface {
		return iface{t: T, v: ref}
	}
	return ref
}

func (m *Machine) encodingIface(e encoding.Encoding) value {
	if e == nil {
		return iface{}
	}
	name := nativeName(e)
	if g, ok := nativeGlobals[name]; ok {
		_ = g
		i := strings.LastIndex(name, ".")
		if pkg := m.prog.ImportedPackage(name[:i]); pkg != nil {
			if v := pkg.Var(name[i+1:]); v != nil {
				return ifaceOf(m.loadForeignGlobal(name, deref(v.Type())), deref(v.Type()))
			}
		}
	}
	T := m.prog.ImportedPackage(xt).Type("Encoding").Type()
	return iface{t: T, v: foreignRef{name: name, extra: e}}
}

func ifaceOf(v value, T types.Type) value {
	if i, ok := v.(iface); ok {
		return i
	}
	return iface{t: T, v: v}
}

func nativeEncoding(v value) encoding.Encoding {
	switch x := v.(type) {
	case iface:
		return nativeEncoding(x.v)
	case foreignRef:
		if e, ok := x.extra.(encoding.Encoding); ok {
			return e
		}
	}
	enginePanic("not a foreign encoding: %T %v", v, v)
	return nil
}

func (m *Machine) errorIface(e error) value {
	if e == nil {
		return iface{}
	}
	return extErrorf(&frame{m: m}, []value{"x/text: " + e.Error(), []value(nil)})
}

func concreteBytes(v value) ([]byte, bool) {
	var bs []value
	switch x := v.(type) {
	case []value:
		bs = x
	case string:
		return []byte(x), true
	case symstr:
		bs = x.b
	default:
		return nil, false
	}
	out := make([]byte, len(bs))
	for i, b := range bs {
		c, ok := b.(uint8)
		if !ok {
			return nil, false
		}
		out[i] = c
	}
	return out, true
}

func bytesValue(b []byte) []value {
	out := make([]value, len(b))
	for i, c := range b {
		out[i] = c
	}
	return out
}

// codec applies enc/dec to src ([]value bytes), returning (bytes, error iface).
func (m *Machine) codec(fr *frame, e encoding.Encoding, decode bool, src []value) ([]value, value) {
	if cb, ok := concreteBytes(src); ok {
		var out []byte
		var err error
		if decode {
			out, err = e.NewDecoder().Bytes(cb)
		} else {
			out, err = e.NewEncoder().Bytes(cb)
		}
		return bytesValue(out), m.errorIface(err)
	}
	model := ""
	switch nativeName(e) {
	case xt + "/unicode.UTF8":
		model = "UTF8"
	case xt + "/charmap.ISO8859_1":
		model = "Latin1"
	default:
		if s, ok := e.(fmt.Stringer); ok && s.String() == "US-ASCII" {
			model = "ASCII"
		}
	}
	if model == "" {
		// few symbolic bytes: fork over their values and run the real codec
		nsym := 0
		for _, b := range src {
			if _, ok := b.(*term.Term); ok {
				nsym++
			}
		}
		if nsym <= 2 {
			cb := make([]byte, len(src))
			for i, b := range src {
				if t, ok := b.(*term.Term); ok {
					cb[i] = byte(m.concretize(t, 256))
				} else {
					cb[i] = b.(uint8)
				}
			}
			return m.codec(fr, e, decode, bytesValue(cb))
		}
		// havoc: x/text is third-party; with many symbolic bytes and no model its output is left
		// arbitrary: empty output, and success or failure chosen by a fresh symbol (both explored)
		m.havocN++
		hv := m.C.Var(fmt.Sprintf("havoc%d_%s", m.havocN, nativeName(e)), term.BoolSort)
		if m.branch(hv) {
			return nil, iface{}
		}
		return nil, m.errorIface(fmt.Errorf("havoc: codec failed"))
	}
	fname := "ModelEncode" + model
	if decode {
		fname = "ModelDecode" + model
	}
	pkg := m.prog.ImportedPackage(verifPkg)
	if pkg == nil || pkg.Func(fname) == nil {
		enginePanic("model %s not found", fname)
	}
	res := m.call(fr, token.NoPos, pkg.Func(fname), []value{src}).(tuple)
	out := res[0].([]value)
	switch ok := res[1].(type) {
	case bool:
		if ok {
			return out, iface{}
		}
		return out, m.errorIface(fmt.Errorf("encoding: rune not supported by encoding"))
	default:
		enginePanic("model %s returned symbolic ok flag; models must branch on it", fname)
	}
	return nil, nil
}

type codecHandle struct {
	enc    encoding.Encoding
	decode bool
}

func init() {
	reg := func(name string, f externalFn) { externals[name] = f }
	reg("(*"+xt+"/ianaindex.Index).Encoding", func(fr *frame, a []value) value {
		idx := a[0].(foreignRef).extra.(*ianaindex.Index)
		name := concStr(fr, a[1])
		e, err := idx.Encoding(name)
		return tuple{fr.m.encodingIface(e), fr.m.errorIface(err)}
	})
	reg("(*"+xt+"/ianaindex.Index).Name", func(fr *frame, a []value) value {
		idx := a[0].(foreignRef).extra.(*ianaindex.Index)
		if i, ok := a[1].(iface); ok && i.t == nil {
			_, err := idx.Name(nil)
			return tuple{"", fr.m.errorIface(err)}
		}
		s, err := idx.Name(nativeEncoding(a[1]))
		return tuple{s, fr.m.errorIface(err)}
	})
	reg(xt+"/unicode.UTF16", func(fr *frame, a []value) value {
		e := unicode.UTF16(unicode.Endianness(asInt64(a[0]) != 0), unicode.BOMPolicy(asInt64(a[1])))
		return fr.m.encodingIface(e)
	})
	newCodec := func(decode bool) externalFn {
		return func(fr *frame, a []value) value {
			e := nativeEncoding(a[0])
			return foreignRef{name: fmt.Sprintf("codec:%v:%s", decode, nativeName(e)), extra: codecHandle{e, decode}}
		}
	}
	reg("(*"+xt+"/charmap.Charmap).NewEncoder", newCodec(false))
	reg("(*"+xt+"/charmap.Charmap).NewDecoder", newCodec(true))
	codecBytes := func(fr *frame, a []value) value {
		h := a[0].(foreignRef).extra.(codecHandle)
		src := a[1].([]value)
		out, err := fr.m.codec(fr, h.enc, h.decode, src)
		return tuple{out, err}
	}
	reg("(*"+xt+".Encoder).Bytes", codecBytes)
	reg("(*"+xt+".Decoder).Bytes", codecBytes)
	codecString := func(fr *frame, a []value) value {
		h := a[0].(foreignRef).extra.(codecHandle)
		src, _ := strBytes(a[1])
		out, err := fr.m.codec(fr, h.enc, h.decode, src)
		return tuple{mkStr(out), err}
	}
	reg("(*"+xt+".Encoder).String", codecString)
	reg("(*"+xt+".Decoder).String", codecString)
	reg("golang.org/x/text/transform.Append", func(fr *frame, a []value) value {
		var h codecHandle
		switch t := a[0].(type) {
		case iface:
			h = t.v.(foreignRef).extra.(codecHandle)
		case foreignRef:
			h = t.extra.(codecHandle)
		}
		dst := a[1].([]value)
		src := a[2].([]value)
		out, err := fr.m.codec(fr, h.enc, h.decode, src)
		res := make([]value, 0, len(dst)+len(out))
		res = append(res, dst...)
		res = append(res, out...)
		return tuple{res, len(src), err}
	})
	_ = transform.Nop
}

// foreignMethod dispatches interface method calls whose receiver is a foreign handle.
func (m *Machine) foreignMethod(fr *frame, recv foreignRef, meth string, args []value) value {
	switch x := recv.extra.(type) {
	case encoding.Encoding:
		switch meth {
		case "NewEncoder":
			return foreignRef{name: "codec:enc:" + nativeName(x), extra: codecHandle{x, false}}
		case "NewDecoder":
			return foreignRef{name: "codec:dec:" + nativeName(x), extra: codecHandle{x, true}}
		case "String":
			if s, ok := x.(fmt.Stringer); ok {
				return s.String()
			}
		}
	}
	enginePanic("UNSUPPORTED foreign method %s on %s", meth, recv.name)
	return nil
}

var _ = ssa.NaiveForm
