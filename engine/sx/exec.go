package sx

import (
	"fmt"
	"go/token"
	"go/types"
	"os"
	"reflect"
	"runtime"
	"slices"
	"strings"
	"time"

	"golang.org/x/tools/go/ssa"

	"verif/engine/term"
)

type deferred struct {
	fn    value
	args  []value
	instr *ssa.Defer
	tail  *deferred
}

type frame struct {
	m                *Machine
	caller           *frame
	fn               *ssa.Function
	block, prevBlock *ssa.BasicBlock
	env              map[ssa.Value]value
	locals           []value
	defers           *deferred
	result           value
	phitemps         []value
	mergeLvl         int
	curPos           token.Pos
	visits           map[*ssa.BasicBlock]int
	phisDone         bool
}

func envKeyOf(env map[ssa.Value]value, k ssa.Value) envK {
	return envK{reflect.ValueOf(env).Pointer(), k}
}

func mapKeyOf(mp map[value]value, k value) mapK {
	return mapK{reflect.ValueOf(mp).Pointer(), k}
}

func (fr *frame) get(key ssa.Value) value {
	switch key := key.(type) {
	case nil:
		return nil
	case *ssa.Function, *ssa.Builtin:
		return key
	case *ssa.Const:
		return constValue(key)
	case *ssa.Global:
		if r, ok := fr.m.globals[key]; ok {
			if foreignPkg(key.Pkg) {
				return foreignRef{name: key.Pkg.Pkg.Path() + "." + key.Name(), isAddr: true, extra: deref(key.Type())}
			}
			return r
		}
	}
	if r, ok := fr.env[key]; ok {
		return r
	}
	panic(fmt.Sprintf("get: no value for %T: %v in %s block %d", key, key.Name(), fr.fn, fr.block.Index))
}

func (fr *frame) set(k ssa.Value, v value) { fr.m.setEnv(fr, k, v) }

// foreignRef stands for a value owned by a package that is not interpreted (x/text tables etc.).
type foreignRef struct {
	name   string
	isAddr bool
	extra  interface{}
}

type foreignCall struct {
	recv foreignRef
	meth string
}

func foreignPkg(p *ssa.Package) bool {
	if p == nil {
		return false
	}
	return strings.HasPrefix(p.Pkg.Path(), "golang.org/x/text")
}

func (m *Machine) runDefers(fr *frame) {
	for d := fr.defers; d != nil; d = d.tail {
		m.call(fr, d.instr.Pos(), d.fn, d.args)
	}
	fr.defers = nil
}

func lookupMethod(m *Machine, typ types.Type, meth *types.Func) *ssa.Function {
	return m.prog.LookupMethod(typ, meth.Pkg(), meth.Name())
}

func (m *Machine) prepareCall(fr *frame, call *ssa.CallCommon) (fn value, args []value) {
	v := fr.get(call.Value)
	if call.Method == nil {
		fn = v
	} else {
		recv := v.(iface)
		if recv.t == nil {
			m.targetPanic(fr, "method invoked on nil interface")
		}
		if ref, ok := recv.v.(foreignRef); ok {
			for _, arg := range call.Args {
				args = append(args, fr.get(arg))
			}
			return foreignCall{ref, call.Method.Name()}, args
		}
		if f := lookupMethod(m, recv.t, call.Method); f == nil {
			enginePanic("method set for dynamic type %v does not contain %s", recv.t, call.Method)
		} else {
			fn = f
		}
		args = append(args, recv.v)
	}
	for _, arg := range call.Args {
		args = append(args, fr.get(arg))
	}
	return
}

func (m *Machine) call(caller *frame, callpos token.Pos, fn value, args []value) value {
	switch fn := fn.(type) {
	case *ssa.Function:
		if fn == nil {
			m.targetPanic(caller, "call of nil function")
		}
		return m.callSSA(caller, callpos, fn, args, nil)
	case *closure:
		return m.callSSA(caller, callpos, fn.Fn, args, fn.Env)
	case *ssa.Builtin:
		return m.callBuiltin(caller, callpos, fn, args)
	case foreignCall:
		return m.foreignMethod(caller, fn.recv, fn.meth, args)
	}
	panic(fmt.Sprintf("cannot call %T", fn))
}

func (m *Machine) callSSA(caller *frame, callpos token.Pos, fn *ssa.Function, args []value, env []value) value {
	if r, ok := m.Redirect[fn]; ok {
		fn = r
	}
	fr := &frame{m: m, caller: caller, fn: fn}
	if m.SummarizeGFMul && fn.Name() == "Multiply" && fn.String() == "(*"+gfType+").Multiply" {
		if _, s1 := args[1].(*term.Term); s1 {
			return m.gfMulSummary(fr, args)
		}
		if _, s2 := args[2].(*term.Term); s2 {
			return m.gfMulSummary(fr, args)
		}
	}
	if fn.Synthetic == "package initializer" && m.InitAllowed != nil && !m.InitAllowed(fn.Pkg) {
		return nil
	}
	if fn.Parent() == nil {
		name := fn.String()
		if ext := externals[name]; ext != nil {
			return ext(fr, args)
		}
		if fn.Blocks == nil {
			enginePanic("UNSUPPORTED callee (no code): %s", name)
		}
	}
	if fn.Synthetic == "package initializer" && m.InitAllowed != nil && !m.InitAllowed(fn.Pkg) {
		return nil
	}
	if fn.Pkg != nil && foreignPkg(fn.Pkg) {
		enginePanic("UNSUPPORTED callee in foreign package: %s", fn.String())
	}
	m.depth++
	if m.depth > 2000 {
		enginePanic("call depth exceeded in %s", fn.String())
	}
	defer func() { m.depth-- }()
	if !m.funcsEncoded[fn] {
		m.funcsEncoded[fn] = true
	}
	fr.env = make(map[ssa.Value]value)
	fr.block = fn.Blocks[0]
	fr.locals = make([]value, len(fn.Locals))
	for i, l := range fn.Locals {
		fr.locals[i] = zero(deref(l.Type()))
		fr.env[l] = &fr.locals[i]
	}
	for i, p := range fn.Params {
		fr.env[p] = args[i]
	}
	for i, fv := range fn.FreeVars {
		fr.env[fv] = env[i]
	}
	m.runFrame(fr, nil)
	return fr.result
}

// runFrame executes from fr.block until return (stop == nil) or until control is about to
// continue in block stop (its phis are then already executed). Returns true if stop was reached.
func (m *Machine) runFrame(fr *frame, stop *ssa.BasicBlock) bool {
	for {
		if fr.block == nil {
			return false
		}
		if stop != nil && fr.block == stop {
			if !fr.phisDone {
				m.executePhis(fr)
				fr.phisDone = true
			}
			return true
		}
		if !fr.phisDone {
			m.executePhis(fr)
		}
		fr.phisDone = false
		if fr.visits == nil {
			fr.visits = map[*ssa.BasicBlock]int{}
		}
		fr.visits[fr.block]++
		if fr.visits[fr.block] > m.MaxBlockVisit {
			m.incomplete(fmt.Sprintf("unwinding bound %d exceeded in %s block %d", m.MaxBlockVisit, fr.fn, fr.block.Index))
			panic(pathEnd{kind: "budget", msg: "unwind"})
		}
		instrs := fr.block.Instrs
		i := 0
		for i < len(instrs) {
			if _, ok := instrs[i].(*ssa.Phi); !ok {
				break
			}
			i++
		}
	blockLoop:
		for ; i < len(instrs); i++ {
			instr := instrs[i]
			m.curSteps++
			if m.curSteps > m.MaxSteps {
				m.incomplete("step budget exceeded")
				panic(pathEnd{kind: "budget", msg: "steps"})
			}
			if m.curSteps&0x3fff == 0 && !m.Deadline.IsZero() && time.Now().After(m.Deadline) {
				m.incomplete("wall-limit: task stopped at the per-task wall-clock limit")
				m.stopTask = true
				panic(taskStop{}) // not a pathEnd: must unwind through any merge in progress
			}
			if p := instr.Pos(); p != token.NoPos {
				fr.curPos = p
			}
			m.cur = fr
			switch m.visitInstr(fr, instr) {
			case kReturn:
				return false
			case kJump:
				break blockLoop
			}
		}
	}
}

func (m *Machine) executePhis(fr *frame) {
	blk := fr.block
	n := 0
	for _, instr := range blk.Instrs {
		if _, ok := instr.(*ssa.Phi); !ok {
			break
		}
		n++
	}
	if n == 0 {
		return
	}
	predIndex := slices.Index(blk.Preds, fr.prevBlock)
	fr.phitemps = fr.phitemps[:0]
	for _, instr := range blk.Instrs[:n] {
		fr.phitemps = append(fr.phitemps, fr.get(instr.(*ssa.Phi).Edges[predIndex]))
	}
	for i, instr := range blk.Instrs[:n] {
		fr.set(instr.(*ssa.Phi), fr.phitemps[i])
	}
}

// ---- symbolic branch: merge or fork ----

func (m *Machine) symbolicIf(fr *frame, instr *ssa.If, c *term.Term) {
	blk := fr.block
	follow := func(dir bool) {
		succ := 1
		if dir {
			succ = 0
		}
		fr.prevBlock, fr.block = blk, blk.Succs[succ]
		fr.phisDone = false
	}
	// Replaying a recorded prefix (only top-level events are recorded).
	if m.mergeLvl == 0 && m.decPos < len(m.decs) {
		d := m.decs[m.decPos]
		m.decPos++
		switch v := d.vals[d.choice]; v {
		case 2:
			if !m.tryMerge(fr, instr, c) {
				enginePanic("nondeterministic replay: merge at %s did not repeat", m.where(fr))
			}
		default:
			if d.n == 2 {
				if v != 0 {
					m.pushPC(c)
				} else {
					m.pushPC(m.C.Not(c))
				}
			}
			follow(v != 0)
		}
		return
	}
	tf, ff, checked := true, true, false
	if !(m.EnableMerge && !m.noMerge[instr] && m.simpleRegion(instr)) {
		checked = true
		tf = m.feasible(c)
		if tf {
			ff = m.feasible(m.C.Not(c))
		}
	}
	if !tf && !ff {
		panic(pathEnd{kind: "dead", msg: "no feasible branch"})
	}
	if tf && ff {
		if m.EnableMerge && !m.noMerge[instr] {
			if m.tryMerge(fr, instr, c) {
				if m.mergeLvl == 0 {
					m.decs = append(m.decs, decision{choice: 0, n: 1, vals: []uint64{2}})
					m.decPos++
				}
				return
			}
			m.noMerge[instr] = true
		}
		if m.mergeLvl > 0 {
			panic(abortMerge{"fork inside merge"})
		}
		if !checked {
			tf = m.feasible(c)
			if tf {
				ff = m.feasible(m.C.Not(c))
			}
			if !tf && !ff {
				panic(pathEnd{kind: "dead", msg: "no feasible branch"})
			}
		}
	}
	if tf && ff {
		ch, vals := m.choose(2, []uint64{1, 0})
		dir := vals[ch] != 0
		if dir {
			m.pushPC(c)
		} else {
			m.pushPC(m.C.Not(c))
		}
		follow(dir)
		return
	}
	// forced
	if m.mergeLvl == 0 {
		v := uint64(0)
		if tf {
			v = 1
		}
		m.choose(1, []uint64{v})
	}
	follow(tf)
}

type sideResult struct {
	kind    int // 0 reached join, 1 returned, 2 dead (panicked / infeasible), 3 abort
	result  value
	extraPC []*term.Term
	abort   abortMerge
	end     pathEnd
}

// taskStop unwinds the whole path when the per-task wall-clock limit is reached.
type taskStop struct{}

func (m *Machine) runSide(fr *frame, from, to, join *ssa.BasicBlock, cond *term.Term, pcLen int) (res sideResult) {
	defer func() {
		if r := recover(); r != nil {
			switch r := r.(type) {
			case pathEnd:
				res = sideResult{kind: 2, end: r}
			case abortMerge:
				res = sideResult{kind: 3, abort: r}
			default:
				panic(r)
			}
		}
	}()
	m.pushPC(cond)
	fr.prevBlock, fr.block = from, to
	fr.phisDone = false
	reached := m.runFrame(fr, join)
	extra := append([]*term.Term(nil), m.pc[pcLen+1:]...)
	if reached {
		return sideResult{kind: 0, extraPC: extra}
	}
	return sideResult{kind: 1, result: fr.result, extraPC: extra}
}

func (m *Machine) tryMerge(fr *frame, instr *ssa.If, c *term.Term) bool {
	blk := fr.block
	join := ipdom(blk)
	cp := len(m.journal)
	pcLen := len(m.pc)
	savedDefers := fr.defers
	savedDepth := m.depth
	nFind := len(m.Findings)
	statsSaved := m.Stats
	r1why, r2why := "", ""
	fr.mergeLvl++
	m.mergeLvl++
	restore := func() {
		m.rollback(cp)
		m.truncPC(pcLen)
		fr.block, fr.prevBlock = blk, nil
		fr.phisDone = false
		fr.defers = savedDefers
		fr.result = nil
		m.depth = savedDepth
	}
	failWhy := ""
	fail := func() bool {
		if os.Getenv("GZV_DEBUG") != "" {
			fmt.Fprintf(os.Stderr, "MERGE-ABORT at %s: %s / %s / %s\n", m.where(fr), failWhy, r1why, r2why)
		}
		restore()
		fr.mergeLvl--
		m.mergeLvl--
		// findings recorded inside an aborted attempt will be rediscovered by the forked paths
		m.Findings = m.Findings[:nFind]
		obl, triv, us, ss := statsSaved.Obligations, statsSaved.Trivial, statsSaved.SolverUnsat, statsSaved.SolverSat
		m.Stats.Obligations, m.Stats.Trivial, m.Stats.SolverUnsat, m.Stats.SolverSat = obl, triv, us, ss
		m.Stats.Panics = statsSaved.Panics
		m.Stats.MergeAborts++
		fr.block = blk
		return false
	}

	r1 := m.runSide(fr, blk, blk.Succs[0], join, c, pcLen)
	if r1.kind == 3 {
		r1why = r1.abort.why
		return fail()
	}
	if fr.defers != savedDefers {
		return fail()
	}
	d1, order1 := m.collectDelta(cp)
	restore()
	r2 := m.runSide(fr, blk, blk.Succs[1], join, m.C.Not(c), pcLen)
	if r2.kind == 3 || fr.defers != savedDefers {
		r2why = r2.abort.why
		return fail()
	}
	fr.mergeLvl--
	m.mergeLvl--

	finishAt := func(r sideResult) {
		if r.kind == 0 {
			fr.block = join
			fr.phisDone = true
		} else {
			fr.block = nil
			fr.result = r.result
		}
	}
	switch {
	case r1.kind == 2 && r2.kind == 2:
		m.truncPC(pcLen)
		panic(pathEnd{kind: "dead", msg: "both sides ended"})
	case r1.kind == 2:
		// continue in side-2 state; pc already holds ¬c and side extras
		finishAt(r2)
		return true
	case r2.kind == 2:
		// re-establish side-1 state
		m.rollback(cp)
		m.truncPC(pcLen)
		m.pushPC(c)
		for _, e := range r1.extraPC {
			m.pushPC(e)
		}
		for _, k := range order1 {
			m.applyDelta(d1[k])
		}
		finishAt(r1)
		return true
	}
	if r1.kind != r2.kind {
		failWhy = fmt.Sprintf("kinds %d/%d join=%v", r1.kind, r2.kind, join)
		fr.mergeLvl++
		m.mergeLvl++
		return fail()
	}
	// both alive: merge. We are in side-2 state.
	d2, order2 := m.collectDelta(cp)
	type wr struct {
		d *delta
		v value
		h bool
	}
	var writes []wr
	ok := true
	mergeLoc := func(k interface{}, e1, e2 *delta) {
		var v1, v2 value
		var h1, h2 bool
		var ref *delta
		if e1 != nil {
			v1, h1, ref = e1.cur, e1.has, e1
		}
		if e2 != nil {
			v2, h2, ref = e2.cur, e2.has, e2
		}
		if e1 == nil {
			v1, h1 = e2.u.old, e2.u.had || e2.u.addr != nil
		}
		if e2 == nil {
			v2, h2 = e1.u.old, e1.u.had || e1.u.addr != nil
		}
		if ref.u.env != nil {
			// a register whose defining block does not dominate the join is dead there (SSA)
			if in, ok := ref.u.key.(ssa.Instruction); ok {
				db := in.Block()
				if join == nil || (db != join && !db.Dominates(join)) {
					return
				}
			}
			// registers defined on one side only are dead after the join
			if !h1 || !h2 {
				if h1 {
					writes = append(writes, wr{ref, v1, true})
				}
				return
			}
		} else if h1 != h2 {
			failWhy = "presence differs"
			ok = false
			return
		}
		mv, good := m.mergeVal(c, v1, v2)
		if !good {
			failWhy = fmt.Sprintf("unmergeable %T vs %T", v1, v2)
			ok = false
			return
		}
		writes = append(writes, wr{ref, mv, h1})
	}
	for _, k := range order1 {
		mergeLoc(k, d1[k], d2[k])
		if !ok {
			break
		}
	}
	if ok {
		for _, k := range order2 {
			if _, dup := d1[k]; dup {
				continue
			}
			mergeLoc(k, nil, d2[k])
			if !ok {
				break
			}
		}
	}
	var mergedResult value
	if ok && r1.kind == 1 {
		mergedResult, ok = m.mergeVal(c, r1.result, r2.result)
	}
	if !ok {
		fr.mergeLvl++
		m.mergeLvl++
		return fail()
	}
	for _, w := range writes {
		e := *w.d
		e.cur, e.has = w.v, w.h
		m.applyDelta(&e)
	}
	m.truncPC(pcLen)
	for _, e := range r1.extraPC {
		m.pushPC(m.C.Implies(c, e))
	}
	for _, e := range r2.extraPC {
		m.pushPC(m.C.Implies(m.C.Not(c), e))
	}
	m.Stats.Merges++
	if r1.kind == 0 {
		fr.block = join
		fr.phisDone = true
	} else {
		fr.block = nil
		fr.result = mergedResult
	}
	return true
}

func (m *Machine) applyDelta(e *delta) {
	switch {
	case e.u.addr != nil:
		m.journal = append(m.journal, undo{addr: e.u.addr, old: *e.u.addr})
		*e.u.addr = e.cur
	case e.u.env != nil:
		old, had := e.u.env[e.u.key]
		m.journal = append(m.journal, undo{env: e.u.env, key: e.u.key, old: old, had: had})
		if e.has {
			e.u.env[e.u.key] = e.cur
		} else {
			delete(e.u.env, e.u.key)
		}
	default:
		if e.has {
			m.mapSet(e.u.mp, e.u.mkey, e.cur)
		} else {
			m.mapDelete(e.u.mp, e.u.mkey)
		}
	}
}

func sameSlice(a, b []value) bool {
	if len(a) != len(b) || cap(a) != cap(b) {
		return false
	}
	if cap(a) == 0 {
		return (a == nil) == (b == nil)
	}
	return &a[:1][0] == &b[:1][0]
}

// mergeVal returns ite(c, v1, v2) when representable.
func (m *Machine) mergeVal(c *term.Term, v1, v2 value) (value, bool) {
	switch x := v1.(type) {
	case nil:
		return nil, v2 == nil
	case *term.Term:
		y, ok := m.tryTerm(v2)
		if !ok || y.Sort != x.Sort {
			return nil, false
		}
		return m.C.Ite(c, x, y), true
	case bool, int, int8, int16, int32, int64, uint, uint8, uint16, uint32, uint64, uintptr, float64:
		if v1 == v2 {
			return v1, true
		}
		a, _ := m.tryTerm(v1)
		b, ok := m.tryTerm(v2)
		if !ok || a.Sort != b.Sort {
			return nil, false
		}
		if _, isT := v2.(*term.Term); !isT && reflect.TypeOf(v1) != reflect.TypeOf(v2) {
			return nil, false
		}
		return symOf(m.C.Ite(c, a, b), v1), true
	case string:
		if y, ok := v2.(string); ok {
			if x == y {
				return x, true
			}
			if len(x) != len(y) {
				return nil, false
			}
		}
		return m.mergeStr(c, v1, v2)
	case symstr:
		return m.mergeStr(c, v1, v2)
	case *value:
		y, ok := v2.(*value)
		return v1, ok && x == y
	case []value:
		y, ok := v2.([]value)
		if ok && sameSlice(x, y) {
			return v1, true
		}
		return nil, false
	case structure:
		y, ok := v2.(structure)
		if !ok || len(x) != len(y) {
			return nil, false
		}
		out := make(structure, len(x))
		for i := range x {
			var g bool
			if out[i], g = m.mergeVal(c, x[i], y[i]); !g {
				return nil, false
			}
		}
		return out, true
	case array:
		y, ok := v2.(array)
		if !ok || len(x) != len(y) {
			return nil, false
		}
		out := make(array, len(x))
		for i := range x {
			var g bool
			if out[i], g = m.mergeVal(c, x[i], y[i]); !g {
				return nil, false
			}
		}
		return out, true
	case tuple:
		y, ok := v2.(tuple)
		if !ok || len(x) != len(y) {
			return nil, false
		}
		out := make(tuple, len(x))
		for i := range x {
			var g bool
			if out[i], g = m.mergeVal(c, x[i], y[i]); !g {
				return nil, false
			}
		}
		return out, true
	case iface:
		y, ok := v2.(iface)
		if !ok {
			return nil, false
		}
		if x.t == nil || y.t == nil {
			return v1, x.t == nil && y.t == nil
		}
		if !types.Identical(x.t, y.t) {
			return nil, false
		}
		iv, g := m.mergeVal(c, x.v, y.v)
		if !g {
			return nil, false
		}
		return iface{t: x.t, v: iv}, true
	case *ssa.Function:
		y, ok := v2.(*ssa.Function)
		return v1, ok && x == y
	case *closure:
		y, ok := v2.(*closure)
		return v1, ok && x == y
	case map[value]value:
		y, ok := v2.(map[value]value)
		return v1, ok && reflect.ValueOf(x).Pointer() == reflect.ValueOf(y).Pointer()
	case *symPtr:
		y, ok := v2.(*symPtr)
		return v1, ok && x == y
	case foreignRef:
		y, ok := v2.(foreignRef)
		return v1, ok && x.name == y.name && x.extra == y.extra
	}
	return nil, false
}

func (m *Machine) mergeStr(c *term.Term, v1, v2 value) (value, bool) {
	a, ok1 := strBytes(v1)
	b, ok2 := strBytes(v2)
	if !ok1 || !ok2 || len(a) != len(b) {
		return nil, false
	}
	out := make([]value, len(a))
	for i := range a {
		var g bool
		if out[i], g = m.mergeVal(c, a[i], b[i]); !g {
			return nil, false
		}
	}
	return mkStr(out), true
}

// ipdom returns the immediate post-dominator of b within its function (nil = function exit).
func ipdom(b *ssa.BasicBlock) *ssa.BasicBlock {
	fn := b.Parent()
	pd := postDoms(fn)
	return pd[b.Index]
}

var pdCache = map[*ssa.Function][]*ssa.BasicBlock{}
var pdMu = make(chan struct{}, 1)

func postDoms(fn *ssa.Function) []*ssa.BasicBlock {
	pdMu <- struct{}{}
	defer func() { <-pdMu }()
	if r, ok := pdCache[fn]; ok {
		return r
	}
	n := len(fn.Blocks)
	// sets as bitsets over n+1 nodes (n = virtual exit)
	words := (n + 1 + 63) / 64
	full := make([]uint64, words)
	for i := 0; i <= n; i++ {
		full[i/64] |= 1 << uint(i%64)
	}
	pdom := make([][]uint64, n+1)
	for i := 0; i < n; i++ {
		pdom[i] = append([]uint64(nil), full...)
	}
	pdom[n] = make([]uint64, words)
	pdom[n][n/64] |= 1 << uint(n%64)
	succs := func(i int) []int {
		b := fn.Blocks[i]
		if len(b.Succs) == 0 {
			return []int{n}
		}
		out := make([]int, len(b.Succs))
		for k, s := range b.Succs {
			out[k] = s.Index
		}
		return out
	}
	changed := true
	tmp := make([]uint64, words)
	for changed {
		changed = false
		for i := n - 1; i >= 0; i-- {
			copy(tmp, full)
			for _, s := range succs(i) {
				for w := range tmp {
					tmp[w] &= pdom[s][w]
				}
			}
			tmp[i/64] |= 1 << uint(i%64)
			for w := range tmp {
				if tmp[w] != pdom[i][w] {
					changed = true
					copy(pdom[i], tmp)
					break
				}
			}
		}
	}
	has := func(set []uint64, i int) bool { return set[i/64]&(1<<uint(i%64)) != 0 }
	count := func(set []uint64) int {
		c := 0
		for i := 0; i <= n; i++ {
			if has(set, i) {
				c++
			}
		}
		return c
	}
	res := make([]*ssa.BasicBlock, n)
	for i := 0; i < n; i++ {
		// immediate post-dominator: the strict post-dominator with the largest pdom set
		best, bestC := -1, -1
		for j := 0; j <= n; j++ {
			if j != i && has(pdom[i], j) {
				if c := count(pdom[j]); c > bestC {
					best, bestC = j, c
				}
			}
		}
		if best >= 0 && best < n {
			res[i] = fn.Blocks[best]
		}
	}
	pdCache[fn] = res
	return res
}

// ---- top level ----

type RunResult struct {
	Findings   []Finding
	Stats      Stats
	Reached    map[string]int
	Incomplete []string
	Funcs      []string
	SharedHits []string
}

// RunInit executes the package initialisers of the given packages (dependencies first).
func (m *Machine) RunInit(pkgs []*ssa.Package) {
	for _, p := range pkgs {
		if init := p.Func("init"); init != nil {
			m.call(nil, token.NoPos, init, nil)
		}
	}
	m.journal = m.journal[:0]
}

// Explore runs fn(args) over all paths.
func (m *Machine) Explore(fn *ssa.Function, args []value) (res RunResult) {
	m.harnessName = fn.Name()
	m.decs = nil
	m.Findings = nil
	m.Stats = Stats{}
	m.Reached = map[string]int{}
	m.Incomplete = nil
	m.stopTask = false
	m.sharedHits = nil
	m.sharedSeen = map[string]bool{}
	m.sharedOn = m.shared != nil && m.MonitorShared
	defer func() { m.sharedOn = false }()
	m.noMerge = map[*ssa.If]bool{}
	m.ifHist = map[*ssa.If]int{}
	for {
		m.runPath(fn, args)
		m.Stats.Paths++
		if !m.stopTask && !m.Deadline.IsZero() && time.Now().After(m.Deadline) {
			m.incomplete("wall-limit: task stopped at the per-task wall-clock limit")
			m.stopTask = true
		}
		if m.stopTask {
			break
		}
		if len(m.Findings) > 40 {
			m.incomplete("stopped after 40 findings")
			break
		}
		if m.Stats.Paths >= m.MaxPaths {
			m.incomplete(fmt.Sprintf("path budget %d exceeded", m.MaxPaths))
			break
		}
		if !m.nextPath() {
			break
		}
	}
	res.Findings = m.Findings
	res.Stats = m.Stats
	res.Reached = m.Reached
	res.Incomplete = m.Incomplete
	res.SharedHits = m.sharedHits
	for f := range m.funcsEncoded {
		res.Funcs = append(res.Funcs, f.String())
	}
	return
}

func (m *Machine) runPath(fn *ssa.Function, args []value) {
	m.decPos = 0
	m.pc = m.pc[:0]
	m.Inputs = m.Inputs[:0]
	m.nInputs = 0
	m.curSteps = 0
	m.havocN = 0
	m.depth = 0
	m.mergeLvl = 0
	m.lockDepth = 0
	m.onceDone = map[*value]bool{}
	for _, pm := range m.models {
		pm.okLen = 0
	}
	defer func() {
		m.Stats.Steps += m.curSteps
		m.rollback(0)
		if r := recover(); r != nil {
			switch r := r.(type) {
			case pathEnd:
				return
			case taskStop:
				return
			case abortMerge:
				panic(engineError{"abortMerge escaped to top level: " + r.why})
			case engineError:
				panic(r)
			case runtime.Error:
				buf := make([]byte, 1<<14)
				buf = buf[:runtime.Stack(buf, false)]
				panic(engineError{fmt.Sprintf("interpreter crash: %v\n%s", r, buf)})
			default:
				panic(r)
			}
		}
	}()
	m.call(nil, token.NoPos, fn, args)
}

// MkArgs converts Go ints to interpreter values for the harness parameters.
func MkArgs(fn *ssa.Function, ints []int64) []value {
	var out []value
	for i, p := range fn.Params {
		var x int64
		if i < len(ints) {
			x = ints[i]
		}
		switch b := p.Type().Underlying().(type) {
		case *types.Basic:
			switch b.Kind() {
			case types.Int:
				out = append(out, int(x))
			case types.Bool:
				out = append(out, x != 0)
			case types.Uint8:
				out = append(out, uint8(x))
			case types.Int32:
				out = append(out, int32(x))
			case types.Uint32:
				out = append(out, uint32(x))
			case types.Int64:
				out = append(out, x)
			default:
				panic("unsupported harness parameter type " + p.Type().String())
			}
		default:
			panic("unsupported harness parameter type " + p.Type().String())
		}
	}
	return out
}

// simpleRegion reports whether both sides of the If are bounded: the blocks between the branch
// and its immediate post-dominator form an acyclic region and every call in it targets a function
// whose own body is acyclic (transitively). Such a branch can be merged without asking whether
// each side is feasible: an infeasible side cannot diverge, and its effects are guarded.
func (m *Machine) simpleRegion(instr *ssa.If) bool {
	if v, ok := m.simpleIf[instr]; ok {
		return v
	}
	blk := instr.Block()
	join := ipdom(blk)
	color := map[*ssa.BasicBlock]int{}
	ok := true
	var visit func(b *ssa.BasicBlock)
	visit = func(b *ssa.BasicBlock) {
		if !ok || b == join {
			return
		}
		if b == blk {
			ok = false
			return
		}
		switch color[b] {
		case 1:
			ok = false
			return
		case 2:
			return
		}
		color[b] = 1
		for _, in := range b.Instrs {
			if !m.simpleInstr(in, 0) {
				ok = false
				return
			}
		}
		for _, s := range b.Succs {
			visit(s)
		}
		color[b] = 2
	}
	for _, s := range blk.Succs {
		visit(s)
	}
	m.simpleIf[instr] = ok
	return ok
}

func (m *Machine) simpleInstr(in ssa.Instruction, depth int) bool {
	switch c := in.(type) {
	case *ssa.Call:
		if c.Call.IsInvoke() {
			return false
		}
		switch f := c.Call.Value.(type) {
		case *ssa.Builtin:
			return true
		case *ssa.Function:
			return m.simpleFunc(f, depth+1)
		}
		return false
	case *ssa.Defer, *ssa.Go, *ssa.Panic, *ssa.Range, *ssa.Next:
		return false
	}
	return true
}

func (m *Machine) simpleFunc(f *ssa.Function, depth int) bool {
	if v, ok := m.simpleFn[f]; ok {
		return v
	}
	if depth > 6 {
		return false
	}
	if externals[f.String()] != nil {
		m.simpleFn[f] = strings.HasPrefix(f.String(), "math") || strings.HasPrefix(f.String(), verifPkg+".And") || strings.HasPrefix(f.String(), verifPkg+".Or")
		return m.simpleFn[f]
	}
	if f.Blocks == nil {
		return false
	}
	m.simpleFn[f] = false // recursion guard
	// acyclic CFG?
	color := map[*ssa.BasicBlock]int{}
	ok := true
	var visit func(b *ssa.BasicBlock)
	visit = func(b *ssa.BasicBlock) {
		if !ok {
			return
		}
		switch color[b] {
		case 1:
			ok = false
			return
		case 2:
			return
		}
		color[b] = 1
		for _, in := range b.Instrs {
			if !m.simpleInstr(in, depth) {
				ok = false
				return
			}
		}
		for _, s := range b.Succs {
			visit(s)
		}
		color[b] = 2
	}
	visit(f.Blocks[0])
	m.simpleFn[f] = ok
	return ok
}

const gfType = "github.com/makiuchi-d/gozxing/common/reedsolomon.GenericGF"

// gfMulSummary replaces the table-driven GenericGF.Multiply by the polynomial product modulo the
// field polynomial (read from the receiver). Validated for every field by the C04 field harnesses.
func (m *Machine) gfMulSummary(fr *frame, args []value) value {
	recv := args[0].(*value)
	st := (*recv).(structure)
	// struct GenericGF { expTable, logTable, zero, one, size, primitive, generatorBase }
	size := int(asInt64(st[4]))
	prim := uint64(asInt64(st[5]))
	mbits := 0
	for 1<<uint(mbits) < size {
		mbits++
	}
	c := m.C
	a, b := m.term(args[1]), m.term(args[2])
	if _, ok := args[1].(*term.Term); ok {
		if _, ok2 := args[2].(*term.Term); !ok2 {
			a, b = b, a // keep the concrete operand as the multiplier
		}
	}
	p := c.BV(64, 0)
	one := c.BV(64, 1)
	for i := mbits - 1; i >= 0; i-- {
		p = c.Bin(term.OBvShl, p, one)
		top := c.Bin(term.OBvAnd, c.Bin(term.OBvLShr, p, c.BV(64, uint64(mbits))), one)
		p = c.Bin(term.OBvXor, p, c.Bin(term.OBvAnd, c.BV(64, prim), c.Un(term.OBvNeg, top)))
		abit := c.Bin(term.OBvAnd, c.Bin(term.OBvLShr, a, c.BV(64, uint64(i))), one)
		p = c.Bin(term.OBvXor, p, c.Bin(term.OBvAnd, b, c.Un(term.OBvNeg, abit)))
	}
	return lowerTerm(p, types.Typ[types.Int])
}
