package sx

import (
	"fmt"
	"go/token"
	"go/types"
	"math"

	"verif/engine/term"
)

// symstr is a string of concrete length with possibly symbolic bytes.
type symstr struct {
	b []value // uint8 or *term.Term (BV8)
}

func mkStr(b []value) value {
	for _, x := range b {
		if _, ok := x.(uint8); !ok {
			return symstr{b: b}
		}
	}
	bs := make([]byte, len(b))
	for i, x := range b {
		bs[i] = x.(uint8)
	}
	return string(bs)
}

func strBytes(v value) ([]value, bool) {
	switch s := v.(type) {
	case string:
		out := make([]value, len(s))
		for i := 0; i < len(s); i++ {
			out[i] = s[i]
		}
		return out, true
	case symstr:
		return s.b, true
	}
	return nil, false
}

func basicKind(t types.Type) (types.BasicKind, bool) {
	if b, ok := t.Underlying().(*types.Basic); ok {
		k := b.Kind()
		switch k {
		case types.UntypedBool:
			k = types.Bool
		case types.UntypedInt:
			k = types.Int
		case types.UntypedRune:
			k = types.Int32
		case types.UntypedFloat:
			k = types.Float64
		}
		return k, true
	}
	return 0, false
}

func kindWidth(k types.BasicKind) (w int, signed bool, ok bool) {
	switch k {
	case types.Int, types.Int64:
		return 64, true, true
	case types.Int8:
		return 8, true, true
	case types.Int16:
		return 16, true, true
	case types.Int32:
		return 32, true, true
	case types.Uint, types.Uint64, types.Uintptr:
		return 64, false, true
	case types.Uint8:
		return 8, false, true
	case types.Uint16:
		return 16, false, true
	case types.Uint32:
		return 32, false, true
	}
	return 0, false, false
}

func nativeFrom(k types.BasicKind, v uint64) value {
	switch k {
	case types.Bool:
		return v != 0
	case types.Int:
		return int(v)
	case types.Int8:
		return int8(v)
	case types.Int16:
		return int16(v)
	case types.Int32:
		return int32(v)
	case types.Int64:
		return int64(v)
	case types.Uint:
		return uint(v)
	case types.Uint8:
		return uint8(v)
	case types.Uint16:
		return uint16(v)
	case types.Uint32:
		return uint32(v)
	case types.Uint64:
		return v
	case types.Uintptr:
		return uintptr(v)
	case types.Float64:
		return math.Float64frombits(v)
	case types.Float32:
		return float32(math.Float64frombits(v))
	}
	panic(fmt.Sprintf("nativeFrom kind %v", k))
}

// lowerTerm returns a native value when t is constant, else t itself.
func lowerTerm(t *term.Term, typ types.Type) value {
	if !t.IsConst() {
		return t
	}
	return lowerConst(t, typ)
}

func lowerConst(t *term.Term, typ types.Type) value {
	k, ok := basicKind(typ)
	if !ok {
		panic("lowerConst: non-basic type " + typ.String())
	}
	return nativeFrom(k, t.K)
}

// symOf lowers t to the dynamic type of like when constant.
func symOf(t *term.Term, like value) value {
	if !t.IsConst() {
		return t
	}
	switch like.(type) {
	case bool:
		return t.K != 0
	case int:
		return int(t.K)
	case int8:
		return int8(t.K)
	case int16:
		return int16(t.K)
	case int32:
		return int32(t.K)
	case int64:
		return int64(t.K)
	case uint:
		return uint(t.K)
	case uint8:
		return uint8(t.K)
	case uint16:
		return uint16(t.K)
	case uint32:
		return uint32(t.K)
	case uint64:
		return t.K
	case uintptr:
		return uintptr(t.K)
	case float64:
		return math.Float64frombits(t.K)
	}
	return t
}

func (m *Machine) tryTerm(v value) (*term.Term, bool) {
	c := m.C
	switch x := v.(type) {
	case *term.Term:
		return x, true
	case bool:
		return c.Bool(x), true
	case int:
		return c.BV(64, uint64(x)), true
	case int8:
		return c.BV(8, uint64(x)), true
	case int16:
		return c.BV(16, uint64(x)), true
	case int32:
		return c.BV(32, uint64(x)), true
	case int64:
		return c.BV(64, uint64(x)), true
	case uint:
		return c.BV(64, uint64(x)), true
	case uint8:
		return c.BV(8, uint64(x)), true
	case uint16:
		return c.BV(16, uint64(x)), true
	case uint32:
		return c.BV(32, uint64(x)), true
	case uint64:
		return c.BV(64, x), true
	case uintptr:
		return c.BV(64, uint64(x)), true
	case float64:
		return c.FP(x), true
	}
	return nil, false
}

func (m *Machine) term(v value) *term.Term {
	t, ok := m.tryTerm(v)
	if !ok {
		panic(fmt.Sprintf("not a scalar: %T", v))
	}
	return t
}

func isSym(v value) bool {
	switch v.(type) {
	case *term.Term, symstr:
		return true
	}
	return false
}

// binop with symbolic operands; tx, ty are the static operand types.
func (m *Machine) binop(fr *frame, op token.Token, tx, ty types.Type, x, y value) value {
	if !isSym(x) && !isSym(y) {
		// concrete: explicit checks for the run-time panics Go would raise
		if op == token.QUO || op == token.REM {
			if k, ok := basicKind(tx); ok {
				if _, _, isInt := kindWidth(k); isInt && asInt64OrU(y) == 0 {
					m.targetPanic(fr, "integer divide by zero")
				}
			}
		}
		if op == token.SHL || op == token.SHR {
			if isSigned(ty) && asInt64(y) < 0 {
				m.targetPanic(fr, "negative shift amount")
			}
		}
		return binop(op, tx, x, y)
	}
	c := m.C
	// strings
	if _, ok := x.(symstr); ok {
		return m.strBinop(op, x, y)
	}
	if _, ok := y.(symstr); ok {
		return m.strBinop(op, x, y)
	}
	if _, ok := x.(string); ok {
		return m.strBinop(op, x, y)
	}
	a, b := m.term(x), m.term(y)
	kx, _ := basicKind(tx)
	switch a.Sort.K {
	case term.KBool:
		switch op {
		case token.EQL:
			return lowerTerm(c.Eq(a, b), types.Typ[types.Bool])
		case token.NEQ:
			return lowerTerm(c.Not(c.Eq(a, b)), types.Typ[types.Bool])
		}
	case term.KFP:
		boolT := types.Typ[types.Bool]
		switch op {
		case token.ADD:
			return lowerTerm(c.FBin(term.OFAdd, a, b), tx)
		case token.SUB:
			return lowerTerm(c.FBin(term.OFSub, a, b), tx)
		case token.MUL:
			return lowerTerm(c.FBin(term.OFMul, a, b), tx)
		case token.QUO:
			return lowerTerm(c.FBin(term.OFDiv, a, b), tx)
		case token.EQL:
			return lowerTerm(c.FCmp(term.OFEq, a, b), boolT)
		case token.NEQ:
			return lowerTerm(c.Not(c.FCmp(term.OFEq, a, b)), boolT)
		case token.LSS:
			return lowerTerm(c.FCmp(term.OFLt, a, b), boolT)
		case token.LEQ:
			return lowerTerm(c.FCmp(term.OFLe, a, b), boolT)
		case token.GTR:
			return lowerTerm(c.FCmp(term.OFLt, b, a), boolT)
		case token.GEQ:
			return lowerTerm(c.FCmp(term.OFLe, b, a), boolT)
		}
	case term.KBV:
		_, signed, _ := kindWidth(kx)
		w := a.Sort.W
		boolT := types.Typ[types.Bool]
		switch op {
		case token.SHL, token.SHR:
			// normalise the count to the operand width
			if isSigned(ty) {
				m.checkPanic(fr, c.Cmp(term.OBvSLt, b, c.BV(b.Sort.W, 0)), "negative shift amount")
			}
			cnt := b
			if b.Sort.W > w {
				big := c.Not(c.Cmp(term.OBvULt, b, c.BV(b.Sort.W, uint64(w))))
				cnt = c.Ite(big, c.BV(w, uint64(w)), c.Extract(w-1, 0, b))
			} else if b.Sort.W < w {
				cnt = c.ZExt(w, b)
			}
			sop := term.OBvShl
			if op == token.SHR {
				sop = term.OBvLShr
				if signed {
					sop = term.OBvAShr
				}
			}
			return lowerTerm(c.Bin(sop, a, cnt), tx)
		}
		if a.Sort != b.Sort {
			panic(fmt.Sprintf("binop %s width mismatch %v %v", op, a.Sort, b.Sort))
		}
		switch op {
		case token.ADD:
			return lowerTerm(c.Bin(term.OBvAdd, a, b), tx)
		case token.SUB:
			return lowerTerm(c.Bin(term.OBvSub, a, b), tx)
		case token.MUL:
			return lowerTerm(c.Bin(term.OBvMul, a, b), tx)
		case token.QUO, token.REM:
			m.checkPanic(fr, c.Eq(b, c.BV(w, 0)), "integer divide by zero")
			var o term.Op
			switch {
			case op == token.QUO && signed:
				o = term.OBvSDiv
			case op == token.QUO:
				o = term.OBvUDiv
			case signed:
				o = term.OBvSRem
			default:
				o = term.OBvURem
			}
			if signed && b.IsConst() && int64(b.K<<(64-uint(w)))>>(64-uint(w)) > 0 {
				// non-negative dividend known from zero mask? use unsigned ops (friendlier to solvers)
				if c.Cmp(term.OBvSLt, a, c.BV(w, 0)) == c.False {
					if op == token.QUO {
						o = term.OBvUDiv
					} else {
						o = term.OBvURem
					}
				}
			}
			return lowerTerm(c.Bin(o, a, b), tx)
		case token.AND:
			return lowerTerm(c.Bin(term.OBvAnd, a, b), tx)
		case token.OR:
			return lowerTerm(c.Bin(term.OBvOr, a, b), tx)
		case token.XOR:
			return lowerTerm(c.Bin(term.OBvXor, a, b), tx)
		case token.AND_NOT:
			return lowerTerm(c.Bin(term.OBvAnd, a, c.Un(term.OBvNot, b)), tx)
		case token.EQL:
			return lowerTerm(c.Eq(a, b), boolT)
		case token.NEQ:
			return lowerTerm(c.Not(c.Eq(a, b)), boolT)
		case token.LSS, token.LEQ, token.GTR, token.GEQ:
			lt, le := term.OBvULt, term.OBvULe
			if signed {
				lt, le = term.OBvSLt, term.OBvSLe
			}
			switch op {
			case token.LSS:
				return lowerTerm(c.Cmp(lt, a, b), boolT)
			case token.LEQ:
				return lowerTerm(c.Cmp(le, a, b), boolT)
			case token.GTR:
				return lowerTerm(c.Cmp(lt, b, a), boolT)
			default:
				return lowerTerm(c.Cmp(le, b, a), boolT)
			}
		}
	}
	panic(fmt.Sprintf("symbolic binop %s on %v", op, a.Sort))
}

func asInt64OrU(v value) int64 {
	switch x := v.(type) {
	case float32, float64:
		return 1
	default:
		return asInt64(x)
	}
}

func (m *Machine) strBinop(op token.Token, x, y value) value {
	a, _ := strBytes(x)
	b, _ := strBytes(y)
	c := m.C
	switch op {
	case token.ADD:
		out := make([]value, 0, len(a)+len(b))
		out = append(out, a...)
		out = append(out, b...)
		return mkStr(out)
	case token.EQL, token.NEQ:
		var r *term.Term
		if len(a) != len(b) {
			r = c.False
		} else {
			r = c.True
			for i := range a {
				r = c.And(r, c.Eq(m.term(a[i]), m.term(b[i])))
			}
		}
		if op == token.NEQ {
			r = c.Not(r)
		}
		return lowerTerm(r, types.Typ[types.Bool])
	case token.LSS, token.LEQ, token.GTR, token.GEQ:
		// lexicographic: less(a,b)
		less := func(a, b []value, orEq bool) *term.Term {
			n := len(a)
			if len(b) < n {
				n = len(b)
			}
			var r *term.Term
			if len(a) < len(b) || (orEq && len(a) == len(b)) {
				r = c.True
			} else {
				r = c.False
			}
			for i := n - 1; i >= 0; i-- {
				ai, bi := m.term(a[i]), m.term(b[i])
				r = c.Ite(c.Eq(ai, bi), r, c.Cmp(term.OBvULt, ai, bi))
			}
			return r
		}
		var r *term.Term
		switch op {
		case token.LSS:
			r = less(a, b, false)
		case token.LEQ:
			r = less(a, b, true)
		case token.GTR:
			r = less(b, a, false)
		default:
			r = less(b, a, true)
		}
		return lowerTerm(r, types.Typ[types.Bool])
	}
	panic("string binop " + op.String())
}

// conv handles conversions with symbolic operands, deferring to the concrete one otherwise.
func (m *Machine) conv(fr *frame, tDst, tSrc types.Type, x value) value {
	utSrc := tSrc.Underlying()
	utDst := tDst.Underlying()
	c := m.C
	switch v := x.(type) {
	case *term.Term:
		kd, ok := basicKind(tDst)
		if !ok {
			panic("symbolic conversion to " + tDst.String())
		}
		ks, _ := basicKind(tSrc)
		switch v.Sort.K {
		case term.KBV:
			_, ssigned, _ := kindWidth(ks)
			if w, _, isInt := kindWidth(kd); isInt {
				return lowerTerm(c.Resize(v, w, ssigned), tDst)
			}
			if kd == types.Float64 {
				return lowerTerm(c.IntToFP(v, ssigned), tDst)
			}
			if kd == types.String {
				// string(rune): concretise
				r := m.concretize(v, 1<<12)
				return string(rune(int32(r)))
			}
		case term.KFP:
			if w, dsigned, isInt := kindWidth(kd); isInt {
				// Go leaves out-of-range conversions implementation-defined; we require in-range
				// so that the result is well defined, and report otherwise.
				lo, hi := -math.Ldexp(1, w-1)-1, math.Ldexp(1, w-1)
				if !dsigned {
					lo, hi = -1, math.Ldexp(1, w)
				}
				inRange := c.And(c.FCmp(term.OFLt, c.FP(lo), v), c.FCmp(term.OFLt, v, c.FP(hi)))
				if !m.obligation("panic", "float to integer conversion out of range (implementation-defined result)", m.where(fr), c.Not(inRange)) {
					m.Stats.Panics++
				}
				m.pushPC(inRange)
				return lowerTerm(c.FPToInt(v, w, dsigned), tDst)
			}
			if kd == types.Float64 {
				return v
			}
		case term.KBool:
			if kd == types.Bool {
				return v
			}
		}
		panic(fmt.Sprintf("symbolic conversion %s -> %s", tSrc, tDst))
	case symstr:
		switch d := utDst.(type) {
		case *types.Slice:
			if k, _ := basicKind(d.Elem()); k == types.Uint8 {
				return append([]value(nil), v.b...)
			}
			// []rune(s): decode concretely after making bytes concrete
			s := m.concKey(fr, v, tSrc).(string)
			return conv(tDst, tSrc, s)
		case *types.Basic:
			if d.Kind() == types.String {
				return v
			}
		}
		panic(fmt.Sprintf("symbolic string conversion %s -> %s", tSrc, tDst))
	case []value:
		if s, ok := utSrc.(*types.Slice); ok {
			if k, _ := basicKind(s.Elem()); k == types.Uint8 {
				if b, ok := utDst.(*types.Basic); ok && b.Kind() == types.String {
					return mkStr(append([]value(nil), v...))
				}
			}
			if k, _ := basicKind(s.Elem()); k == types.Int32 {
				// string([]rune) with symbolic runes: concretise
				out := make([]rune, len(v))
				for i, r := range v {
					out[i] = rune(m.concInt(fr, r, 1<<12))
				}
				return string(out)
			}
		}
	}
	return conv(tDst, tSrc, x)
}
