package term

import (
	"math/rand"
	"testing"
)

type pair struct{ a, b *Term }

func gen(r *rand.Rand, c1, c2 *Ctx, vars1, vars2 []*Term, w int, d int) pair {
	if d == 0 || r.Intn(6) == 0 {
		if r.Intn(3) == 0 {
			var k uint64
			switch r.Intn(4) {
			case 0:
				k = 0
			case 1:
				k = mask(w)
			case 2:
				k = uint64(1) << uint(r.Intn(w))
			default:
				k = r.Uint64()
			}
			return pair{c1.BV(w, k), c2.BV(w, k)}
		}
		// a var of width 8, resized
		i := r.Intn(len(vars1))
		return pair{c1.Resize(vars1[i], w, false), c2.Resize(vars2[i], w, false)}
	}
	sub := func(w int) pair { return gen(r, c1, c2, vars1, vars2, w, d-1) }
	switch r.Intn(14) {
	case 0, 1, 2:
		ops := []Op{OBvAnd, OBvOr, OBvXor, OBvAdd, OBvSub, OBvMul, OBvShl, OBvLShr, OBvAShr, OBvUDiv, OBvURem, OBvSDiv, OBvSRem}
		op := ops[r.Intn(len(ops))]
		x, y := sub(w), sub(w)
		return pair{c1.Bin(op, x.a, y.a), c2.Bin(op, x.b, y.b)}
	case 3:
		x := sub(w)
		sh := uint64(r.Intn(w + 2))
		op := []Op{OBvShl, OBvLShr, OBvAShr}[r.Intn(3)]
		return pair{c1.Bin(op, x.a, c1.BV(w, sh)), c2.Bin(op, x.b, c2.BV(w, sh))}
	case 4:
		x := sub(w)
		k := uint64(1) << uint(r.Intn(w))
		if r.Intn(2) == 0 {
			k = mask(r.Intn(w)+1) << uint(r.Intn(w))
		}
		op := []Op{OBvAnd, OBvOr, OBvXor}[r.Intn(3)]
		return pair{c1.Bin(op, x.a, c1.BV(w, k)), c2.Bin(op, x.b, c2.BV(w, k))}
	case 5:
		if w < 2 {
			return sub(w)
		}
		lw := 1 + r.Intn(w-1)
		x, y := sub(w-lw), sub(lw)
		return pair{c1.Concat(x.a, y.a), c2.Concat(x.b, y.b)}
	case 6:
		bw := w + r.Intn(65-w)
		x := sub(bw)
		lo := r.Intn(bw - w + 1)
		return pair{c1.Extract(lo+w-1, lo, x.a), c2.Extract(lo+w-1, lo, x.b)}
	case 7:
		if w < 2 {
			return sub(w)
		}
		iw := 1 + r.Intn(w-1)
		x := sub(iw)
		if r.Intn(2) == 0 {
			return pair{c1.ZExt(w, x.a), c2.ZExt(w, x.b)}
		}
		return pair{c1.SExt(w, x.a), c2.SExt(w, x.b)}
	case 8, 9:
		cnd := genBool(r, c1, c2, vars1, vars2, d-1)
		x, y := sub(w), sub(w)
		return pair{c1.Ite(cnd.a, x.a, y.a), c2.Ite(cnd.b, x.b, y.b)}
	case 10:
		x := sub(w)
		op := []Op{OBvNot, OBvNeg}[r.Intn(2)]
		return pair{c1.Un(op, x.a), c2.Un(op, x.b)}
	case 11:
		// bool to bv
		cnd := genBool(r, c1, c2, vars1, vars2, d-1)
		return pair{c1.BoolToBV(cnd.a, w), c2.BoolToBV(cnd.b, w)}
	case 12:
		n := 2 + r.Intn(12)
		idx := sub(8)
		var e1, e2 []*Term
		for i := 0; i < n; i++ {
			var e pair
			if r.Intn(2) == 0 {
				k := r.Uint64()
				e = pair{c1.BV(w, k), c2.BV(w, k)}
			} else {
				e = sub(w)
			}
			e1, e2 = append(e1, e.a), append(e2, e.b)
		}
		return pair{c1.Select(idx.a, e1), c2.Select(idx.b, e2)}
	default:
		// single bit or'd at position: the Set() idiom
		x := sub(w)
		cnd := genBool(r, c1, c2, vars1, vars2, d-1)
		k := uint64(1) << uint(r.Intn(w))
		return pair{c1.Bin(OBvOr, x.a, c1.Ite(cnd.a, c1.BV(w, k), c1.BV(w, 0))), c2.Bin(OBvOr, x.b, c2.Ite(cnd.b, c2.BV(w, k), c2.BV(w, 0)))}
	}
}

func genBool(r *rand.Rand, c1, c2 *Ctx, vars1, vars2 []*Term, d int) pair {
	if d <= 0 {
		i := r.Intn(len(vars1))
		b := r.Intn(8)
		return pair{c1.Eq(c1.Extract(b, b, vars1[i]), c1.BV(1, 1)), c2.Eq(c2.Extract(b, b, vars2[i]), c2.BV(1, 1))}
	}
	switch r.Intn(7) {
	case 0:
		x, y := genBool(r, c1, c2, vars1, vars2, d-1), genBool(r, c1, c2, vars1, vars2, d-1)
		return pair{c1.And(x.a, y.a), c2.And(x.b, y.b)}
	case 1:
		x, y := genBool(r, c1, c2, vars1, vars2, d-1), genBool(r, c1, c2, vars1, vars2, d-1)
		return pair{c1.Or(x.a, y.a), c2.Or(x.b, y.b)}
	case 2:
		x := genBool(r, c1, c2, vars1, vars2, d-1)
		return pair{c1.Not(x.a), c2.Not(x.b)}
	case 3:
		w := []int{1, 8, 32, 64, 7}[r.Intn(5)]
		x, y := gen(r, c1, c2, vars1, vars2, w, d-1), gen(r, c1, c2, vars1, vars2, w, d-1)
		return pair{c1.Eq(x.a, y.a), c2.Eq(x.b, y.b)}
	case 4:
		w := []int{1, 8, 32, 64, 7}[r.Intn(5)]
		x := gen(r, c1, c2, vars1, vars2, w, d-1)
		k := uint64(r.Intn(4))
		if r.Intn(2) == 0 {
			k = r.Uint64()
		}
		return pair{c1.Eq(x.a, c1.BV(w, k)), c2.Eq(x.b, c2.BV(w, k))}
	default:
		w := []int{1, 8, 32, 64, 7}[r.Intn(5)]
		op := []Op{OBvULt, OBvULe, OBvSLt, OBvSLe}[r.Intn(4)]
		x, y := gen(r, c1, c2, vars1, vars2, w, d-1), gen(r, c1, c2, vars1, vars2, w, d-1)
		if r.Intn(2) == 0 {
			k := uint64(r.Intn(300))
			if r.Intn(3) == 0 {
				k = -k
			}
			y = pair{c1.BV(w, k), c2.BV(w, k)}
		}
		if r.Intn(4) == 0 {
			x, y = y, x
		}
		return pair{c1.Cmp(op, x.a, y.a), c2.Cmp(op, x.b, y.b)}
	}
}

func TestSimplifierAgainstEval(t *testing.T) {
	r := rand.New(rand.NewSource(1))
	for iter := 0; iter < 30000; iter++ {
		c1, c2 := NewCtx(), NewCtx()
		c2.NoSimp = true
		var v1, v2 []*Term
		for i := 0; i < 3; i++ {
			v1 = append(v1, c1.Var(string(rune('a'+i)), BVSort(8)))
			v2 = append(v2, c2.Var(string(rune('a'+i)), BVSort(8)))
		}
		w := []int{1, 8, 16, 32, 64, 5}[r.Intn(6)]
		var p pair
		if r.Intn(3) == 0 {
			p = genBool(r, c1, c2, v1, v2, 4)
		} else {
			p = gen(r, c1, c2, v1, v2, w, 5)
		}
		for k := 0; k < 8; k++ {
			m1, m2 := NewModel(), NewModel()
			for i := range v1 {
				x := uint64(r.Intn(256))
				m1.Set(v1[i], x)
				m2.Set(v2[i], x)
			}
			if a, b := m1.Eval(p.a), m2.Eval(p.b); a != b {
				t.Fatalf("iter %d: simplified %s = %#x, reference %s = %#x", iter, p.a.str(12), a, p.b.str(12), b)
			}
		}
	}
}
