package term

import (
	"fmt"
	"strings"
)

// Printer emits SMT-LIB2 definitions for terms, remembering what a solver session already has.
type Printer struct {
	emitted  map[int]bool
	Defs     int
	NoArrays bool // emit table lookups as ite trees (pure QF_BV sessions)
}

func NewPrinter() *Printer { return &Printer{emitted: map[int]bool{}} }

func (p *Printer) Reset() { p.emitted = map[int]bool{}; p.Defs = 0 }

func (t *Term) Ref() string {
	switch t.Op {
	case OConst:
		return constSMT(t)
	case OVar:
		return "|" + t.Name + "|"
	}
	return fmt.Sprintf("t%d", t.ID)
}

func constSMT(t *Term) string {
	switch t.Sort.K {
	case KBool:
		if t.K != 0 {
			return "true"
		}
		return "false"
	case KBV:
		if t.Sort.W%4 == 0 {
			return fmt.Sprintf("#x%0*x", t.Sort.W/4, t.K)
		}
		return fmt.Sprintf("#b%0*b", t.Sort.W, t.K)
	default:
		return fmt.Sprintf("((_ to_fp 11 53) #x%016x)", t.K)
	}
}

// Define appends to sb the declarations/definitions needed so that t.Ref() is meaningful.
func (p *Printer) Define(sb *strings.Builder, roots ...*Term) {
	type item struct {
		t    *Term
		done bool
	}
	var stack []item
	for _, r := range roots {
		stack = append(stack, item{r, false})
	}
	for len(stack) > 0 {
		it := stack[len(stack)-1]
		stack = stack[:len(stack)-1]
		t := it.t
		if t.Op == OConst || p.emitted[t.ID] {
			continue
		}
		if !it.done {
			stack = append(stack, item{t, true})
			for _, a := range t.Args {
				if a.Op != OConst && !p.emitted[a.ID] {
					stack = append(stack, item{a, false})
				}
			}
			continue
		}
		p.emitted[t.ID] = true
		p.Defs++
		p.emit(sb, t)
	}
}

func (p *Printer) emit(sb *strings.Builder, t *Term) {
	if t.Op == OVar {
		fmt.Fprintf(sb, "(declare-const %s %s)\n", t.Ref(), t.Sort.SMT())
		return
	}
	if t.Op == OSelect {
		p.emitSelect(sb, t)
		return
	}
	fmt.Fprintf(sb, "(define-fun t%d () %s %s)\n", t.ID, t.Sort.SMT(), body(t))
}

func body(t *Term) string {
	a := func(i int) string { return t.Args[i].Ref() }
	switch t.Op {
	case ONot, OAnd, OOr, OIte, OEq, OBvNot, OBvNeg, OBvAnd, OBvOr, OBvXor, OBvAdd, OBvSub, OBvMul, OBvUDiv,
		OBvURem, OBvSDiv, OBvSRem, OBvShl, OBvLShr, OBvAShr, OBvULt, OBvULe, OBvSLt, OBvSLe, OConcat,
		OFNeg, OFAbs, OFLt, OFLe, OFEq, OFIsNaN, OFIsInf, OFMin, OFMax:
		var sb strings.Builder
		sb.WriteString("(")
		sb.WriteString(opNames[t.Op])
		for i := range t.Args {
			sb.WriteString(" ")
			sb.WriteString(a(i))
		}
		sb.WriteString(")")
		return sb.String()
	case OExtract:
		return fmt.Sprintf("((_ extract %d %d) %s)", t.Hi(), t.Lo(), a(0))
	case OZExt:
		return fmt.Sprintf("((_ zero_extend %d) %s)", t.Sort.W-t.Args[0].Sort.W, a(0))
	case OSExt:
		return fmt.Sprintf("((_ sign_extend %d) %s)", t.Sort.W-t.Args[0].Sort.W, a(0))
	case OFAdd, OFSub, OFMul, OFDiv:
		return fmt.Sprintf("(%s RNE %s %s)", opNames[t.Op], a(0), a(1))
	case OFSqrt:
		return fmt.Sprintf("(fp.sqrt RNE %s)", a(0))
	case OFFloor:
		return fmt.Sprintf("(fp.roundToIntegral RTN %s)", a(0))
	case OFCeil:
		return fmt.Sprintf("(fp.roundToIntegral RTP %s)", a(0))
	case OFRoundRTZ:
		return fmt.Sprintf("(fp.roundToIntegral RTZ %s)", a(0))
	case OSIToFP:
		return fmt.Sprintf("((_ to_fp 11 53) RNE %s)", a(0))
	case OUIToFP:
		return fmt.Sprintf("((_ to_fp_unsigned 11 53) RNE %s)", a(0))
	case OFPToSI:
		return fmt.Sprintf("((_ fp.to_sbv %d) RTZ %s)", t.Sort.W, a(0))
	case OFPToUI:
		return fmt.Sprintf("((_ fp.to_ubv %d) RTZ %s)", t.Sort.W, a(0))
	case OFFromBits:
		return fmt.Sprintf("((_ to_fp 11 53) %s)", a(0))
	}
	panic("smt body: " + opNames[t.Op])
}

func (p *Printer) emitSelect(sb *strings.Builder, t *Term) {
	idx := t.Args[0]
	elems := t.Args[1:]
	allConst := true
	for _, e := range elems {
		if e.Op != OConst {
			allConst = false
			break
		}
	}
	if allConst && len(elems) > 8 && t.Sort.K == KBV && !p.NoArrays {
		// array constrained entry by entry (measured to beat ite trees on large tables)
		fmt.Fprintf(sb, "(declare-const tbl%d (Array %s %s))\n", t.ID, idx.Sort.SMT(), t.Sort.SMT())
		for i, e := range elems {
			fmt.Fprintf(sb, "(assert (= (select tbl%d %s) %s))\n", t.ID, constSMT(&Term{Op: OConst, Sort: idx.Sort, K: uint64(i)}), e.Ref())
		}
		fmt.Fprintf(sb, "(define-fun t%d () %s (select tbl%d %s))\n", t.ID, t.Sort.SMT(), t.ID, idx.Ref())
		return
	}
	var rec func(lo, hi int) string
	rec = func(lo, hi int) string {
		if lo == hi {
			return elems[lo].Ref()
		}
		if hi-lo == 1 {
			return fmt.Sprintf("(ite (= %s %s) %s %s)", idx.Ref(), constSMT(&Term{Op: OConst, Sort: idx.Sort, K: uint64(lo)}), elems[lo].Ref(), elems[hi].Ref())
		}
		mid := (lo + hi + 1) / 2
		return fmt.Sprintf("(ite (bvult %s %s) %s %s)", idx.Ref(), constSMT(&Term{Op: OConst, Sort: idx.Sort, K: uint64(mid)}), rec(lo, mid-1), rec(mid, hi))
	}
	fmt.Fprintf(sb, "(define-fun t%d () %s %s)\n", t.ID, t.Sort.SMT(), rec(0, len(elems)-1))
}

// String renders a term for diagnostics (bounded depth).
func (t *Term) String() string { return t.str(4) }

func (t *Term) str(d int) string {
	switch t.Op {
	case OConst:
		if t.Sort.K == KBV {
			return fmt.Sprintf("%d:%d", t.K, t.Sort.W)
		}
		return constSMT(t)
	case OVar:
		return t.Name
	}
	if d == 0 {
		return fmt.Sprintf("t%d", t.ID)
	}
	var sb strings.Builder
	sb.WriteString("(")
	sb.WriteString(opNames[t.Op])
	if t.Op == OExtract {
		fmt.Fprintf(&sb, "[%d:%d]", t.Hi(), t.Lo())
	}
	for i, a := range t.Args {
		if i > 6 {
			sb.WriteString(" ...")
			break
		}
		sb.WriteString(" ")
		sb.WriteString(a.str(d - 1))
	}
	sb.WriteString(")")
	return sb.String()
}

// Vars collects the variables occurring in the given terms.
func CollectVars(roots ...*Term) []*Term {
	seen := map[int]bool{}
	var out []*Term
	stack := append([]*Term(nil), roots...)
	for len(stack) > 0 {
		t := stack[len(stack)-1]
		stack = stack[:len(stack)-1]
		if seen[t.ID] {
			continue
		}
		seen[t.ID] = true
		if t.Op == OVar {
			out = append(out, t)
		}
		stack = append(stack, t.Args...)
	}
	return out
}

// CollectVarsLimit returns the variables of t, or nil if there are more than limit.
func CollectVarsLimit(t *Term, limit int) []*Term {
	seen := map[int]bool{}
	var out []*Term
	stack := []*Term{t}
	n := 0
	for len(stack) > 0 {
		x := stack[len(stack)-1]
		stack = stack[:len(stack)-1]
		if seen[x.ID] {
			continue
		}
		seen[x.ID] = true
		n++
		if n > 20000 {
			return nil
		}
		if x.Op == OVar {
			out = append(out, x)
			if len(out) > limit {
				return nil
			}
		}
		stack = append(stack, x.Args...)
	}
	return out
}

// LetConj renders the conjunction of roots as one self-contained expression using nested lets
// (one let per topological level), referring only to declared variables. Variables that still
// need declaring are appended to decls. Linear in the size of the cone.
func (p *Printer) LetConj(roots []*Term, decls *strings.Builder) string {
	level := map[int]int{}
	var order []*Term
	type item struct {
		t    *Term
		done bool
	}
	var stack []item
	for _, r := range roots {
		stack = append(stack, item{r, false})
	}
	maxLevel := 0
	for len(stack) > 0 {
		it := stack[len(stack)-1]
		stack = stack[:len(stack)-1]
		t := it.t
		if t.Op == OConst {
			continue
		}
		if _, ok := level[t.ID]; ok {
			continue
		}
		if t.Op == OVar {
			level[t.ID] = 0
			if !p.emitted[t.ID] {
				p.emitted[t.ID] = true
				fmt.Fprintf(decls, "(declare-const %s %s)\n", t.Ref(), t.Sort.SMT())
			}
			continue
		}
		if !it.done {
			stack = append(stack, item{t, true})
			for _, a := range t.Args {
				if a.Op != OConst {
					if _, ok := level[a.ID]; !ok {
						stack = append(stack, item{a, false})
					}
				}
			}
			continue
		}
		l := 0
		for _, a := range t.Args {
			if a.Op != OConst {
				if la := level[a.ID]; la > l {
					l = la
				}
			}
		}
		level[t.ID] = l + 1
		if l+1 > maxLevel {
			maxLevel = l + 1
		}
		order = append(order, t)
	}
	byLevel := make([][]*Term, maxLevel+1)
	for _, t := range order {
		l := level[t.ID]
		byLevel[l] = append(byLevel[l], t)
	}
	var sb strings.Builder
	closing := 0
	for l := 1; l <= maxLevel; l++ {
		if len(byLevel[l]) == 0 {
			continue
		}
		sb.WriteString("(let (")
		for _, t := range byLevel[l] {
			if t.Op == OSelect {
				fmt.Fprintf(&sb, "(t%d %s)", t.ID, selectExpr(t))
			} else {
				fmt.Fprintf(&sb, "(t%d %s)", t.ID, body(t))
			}
		}
		sb.WriteString(")\n")
		closing++
	}
	if len(roots) == 1 {
		sb.WriteString(roots[0].Ref())
	} else {
		sb.WriteString("(and")
		for _, r := range roots {
			sb.WriteString(" ")
			sb.WriteString(r.Ref())
		}
		sb.WriteString(")")
	}
	sb.WriteString(strings.Repeat(")", closing))
	return sb.String()
}

func selectExpr(t *Term) string {
	idx := t.Args[0]
	elems := t.Args[1:]
	var rec func(lo, hi int) string
	rec = func(lo, hi int) string {
		if lo == hi {
			return elems[lo].Ref()
		}
		if hi-lo == 1 {
			return fmt.Sprintf("(ite (= %s %s) %s %s)", idx.Ref(), constSMT(&Term{Op: OConst, Sort: idx.Sort, K: uint64(lo)}), elems[lo].Ref(), elems[hi].Ref())
		}
		mid := (lo + hi + 1) / 2
		return fmt.Sprintf("(ite (bvult %s %s) %s %s)", idx.Ref(), constSMT(&Term{Op: OConst, Sort: idx.Sort, K: uint64(mid)}), rec(lo, mid-1), rec(mid, hi))
	}
	return rec(0, len(elems)-1)
}
