// Package term implements hash-consed SMT terms (Bool, fixed-width bit-vectors up to 64 bits,
// IEEE float64) with a local simplifier, an evaluator and an SMT-LIB2 printer.
package term

import (
	"fmt"
	"math"
	"math/bits"
	"strings"
)

type Kind uint8

const (
	KBool Kind = iota
	KBV
	KFP // float64 only
)

type Sort struct {
	K Kind
	W int // bit-vector width (1..64); 64 for FP
}

var BoolSort = Sort{KBool, 0}
var FPSort = Sort{KFP, 64}

func BVSort(w int) Sort { return Sort{KBV, w} }

func (s Sort) SMT() string {
	switch s.K {
	case KBool:
		return "Bool"
	case KBV:
		return fmt.Sprintf("(_ BitVec %d)", s.W)
	default:
		return "(_ FloatingPoint 11 53)"
	}
}

type Op uint8

const (
	OConst Op = iota
	OVar
	ONot
	OAnd
	OOr
	OIte
	OEq
	OBvNot
	OBvNeg
	OBvAnd
	OBvOr
	OBvXor
	OBvAdd
	OBvSub
	OBvMul
	OBvUDiv
	OBvURem
	OBvSDiv
	OBvSRem
	OBvShl
	OBvLShr
	OBvAShr
	OBvULt
	OBvULe
	OBvSLt
	OBvSLe
	OConcat
	OExtract // K = hi<<8 | lo
	OZExt
	OSExt
	OSelect // Args[0] = index, Args[1:] = elements
	// floating point (float64, RNE)
	OFAdd
	OFSub
	OFMul
	OFDiv
	OFNeg
	OFAbs
	OFSqrt
	OFLt
	OFLe
	OFEq // IEEE equality (NaN != NaN, +0 == -0)
	OFIsNaN
	OFIsInf
	OFFloor
	OFCeil
	OFRoundRTZ // round to integral toward zero
	OSIToFP
	OUIToFP
	OFPToSI // to signed BV of Sort.W, RTZ
	OFPToUI
	OFMin
	OFMax
	OFFromBits // reinterpret BV64 as FP
	opCount
)

var opNames = [...]string{
	OConst: "const", OVar: "var", ONot: "not", OAnd: "and", OOr: "or", OIte: "ite", OEq: "=",
	OBvNot: "bvnot", OBvNeg: "bvneg", OBvAnd: "bvand", OBvOr: "bvor", OBvXor: "bvxor", OBvAdd: "bvadd",
	OBvSub: "bvsub", OBvMul: "bvmul", OBvUDiv: "bvudiv", OBvURem: "bvurem", OBvSDiv: "bvsdiv",
	OBvSRem: "bvsrem", OBvShl: "bvshl", OBvLShr: "bvlshr", OBvAShr: "bvashr", OBvULt: "bvult",
	OBvULe: "bvule", OBvSLt: "bvslt", OBvSLe: "bvsle", OConcat: "concat", OExtract: "extract",
	OZExt: "zero_extend", OSExt: "sign_extend", OSelect: "select",
	OFAdd: "fp.add", OFSub: "fp.sub", OFMul: "fp.mul", OFDiv: "fp.div", OFNeg: "fp.neg", OFAbs: "fp.abs",
	OFSqrt: "fp.sqrt", OFLt: "fp.lt", OFLe: "fp.leq", OFEq: "fp.eq", OFIsNaN: "fp.isNaN", OFIsInf: "fp.isInfinite",
	OFFloor: "fp.floor", OFCeil: "fp.ceil", OFRoundRTZ: "fp.rtz", OSIToFP: "sitofp", OUIToFP: "uitofp",
	OFPToSI: "fptosi", OFPToUI: "fptoui", OFMin: "fp.min", OFMax: "fp.max", OFFromBits: "frombits",
}

type Term struct {
	Op   Op
	Sort Sort
	Args []*Term
	K    uint64 // constant value / var id / extract bounds
	Name string // variable name
	ID   int
	zm   uint64 // known-zero mask cache (bit set => bit known zero); valid if zmOK
	zmOK bool
	FP   bool // some sub-term has floating-point sort
}

func (t *Term) IsConst() bool { return t.Op == OConst }
func (t *Term) Hi() int       { return int(t.K >> 8) }
func (t *Term) Lo() int       { return int(t.K & 0xff) }

type key struct {
	op   Op
	sort Sort
	k    uint64
	name string
	a0   int
	a1   int
	a2   int
	rest string
}

// Ctx owns a hash-cons table. Not safe for concurrent use.
type Ctx struct {
	tab     map[key]*Term
	next    int
	True    *Term
	False   *Term
	NoSimp  bool // disable bit-level rewrites (for self-test differential runs)
	Vars    []*Term
	binMemo map[[3]int]*Term
	exMemo  map[[3]int]*Term
}

func NewCtx() *Ctx {
	c := &Ctx{tab: make(map[key]*Term), binMemo: make(map[[3]int]*Term), exMemo: make(map[[3]int]*Term)}
	c.True = c.mk(OConst, BoolSort, 1, "")
	c.False = c.mk(OConst, BoolSort, 0, "")
	return c
}

func (c *Ctx) NumTerms() int { return c.next }

func (c *Ctx) mk(op Op, s Sort, k uint64, name string, args ...*Term) *Term {
	ky := key{op: op, sort: s, k: k, name: name, a0: -1, a1: -1, a2: -1}
	switch len(args) {
	case 0:
	case 1:
		ky.a0 = args[0].ID
	case 2:
		ky.a0, ky.a1 = args[0].ID, args[1].ID
	case 3:
		ky.a0, ky.a1, ky.a2 = args[0].ID, args[1].ID, args[2].ID
	default:
		ky.a0, ky.a1, ky.a2 = args[0].ID, args[1].ID, args[2].ID
		var sb strings.Builder
		for _, a := range args[3:] {
			fmt.Fprintf(&sb, "%d,", a.ID)
		}
		ky.rest = sb.String()
	}
	if t, ok := c.tab[ky]; ok {
		return t
	}
	t := &Term{Op: op, Sort: s, Args: append([]*Term(nil), args...), K: k, Name: name, ID: c.next}
	t.FP = s.K == KFP
	for _, a := range args {
		if a.FP {
			t.FP = true
		}
	}
	c.next++
	c.tab[ky] = t
	return t
}

func mask(w int) uint64 {
	if w >= 64 {
		return ^uint64(0)
	}
	return (uint64(1) << uint(w)) - 1
}

func sext(v uint64, w int) int64 {
	if w >= 64 {
		return int64(v)
	}
	sh := uint(64 - w)
	return int64(v<<sh) >> sh
}

// ---- constructors ----

func (c *Ctx) Bool(b bool) *Term {
	if b {
		return c.True
	}
	return c.False
}

func (c *Ctx) BV(w int, v uint64) *Term { return c.mk(OConst, BVSort(w), v&mask(w), "") }

func (c *Ctx) FP(f float64) *Term { return c.mk(OConst, FPSort, math.Float64bits(f), "") }

func (c *Ctx) Var(name string, s Sort) *Term {
	n := len(c.tab)
	t := c.mk(OVar, s, 0, name)
	if len(c.tab) != n {
		c.Vars = append(c.Vars, t)
	}
	return t
}

func (c *Ctx) Not(a *Term) *Term {
	if a.Op == OConst {
		return c.Bool(a.K == 0)
	}
	if a.Op == ONot {
		return a.Args[0]
	}
	return c.mk(ONot, BoolSort, 0, "", a)
}

func (c *Ctx) And(a, b *Term) *Term {
	if a.Op == OConst {
		if a.K == 0 {
			return c.False
		}
		return b
	}
	if b.Op == OConst {
		if b.K == 0 {
			return c.False
		}
		return a
	}
	if a == b {
		return a
	}
	if (a.Op == ONot && a.Args[0] == b) || (b.Op == ONot && b.Args[0] == a) {
		return c.False
	}
	if a.ID > b.ID {
		a, b = b, a
	}
	return c.mk(OAnd, BoolSort, 0, "", a, b)
}

func (c *Ctx) Or(a, b *Term) *Term {
	if a.Op == OConst {
		if a.K != 0 {
			return c.True
		}
		return b
	}
	if b.Op == OConst {
		if b.K != 0 {
			return c.True
		}
		return a
	}
	if a == b {
		return a
	}
	if (a.Op == ONot && a.Args[0] == b) || (b.Op == ONot && b.Args[0] == a) {
		return c.True
	}
	if a.ID > b.ID {
		a, b = b, a
	}
	return c.mk(OOr, BoolSort, 0, "", a, b)
}

func (c *Ctx) AndN(ts ...*Term) *Term {
	r := c.True
	for _, t := range ts {
		r = c.And(r, t)
	}
	return r
}

func (c *Ctx) Implies(a, b *Term) *Term { return c.Or(c.Not(a), b) }

func (c *Ctx) Ite(cond, a, b *Term) *Term {
	if a.Sort != b.Sort {
		panic(fmt.Sprintf("ite sort mismatch %v %v", a.Sort, b.Sort))
	}
	if cond.Op == OConst {
		if cond.K != 0 {
			return a
		}
		return b
	}
	if a == b {
		return a
	}
	if cond.Op == ONot {
		return c.Ite(cond.Args[0], b, a)
	}
	if a.Sort.K == KBool {
		if a.Op == OConst && b.Op == OConst {
			if a.K != 0 {
				return cond
			}
			return c.Not(cond)
		}
		if a.Op == OConst {
			if a.K != 0 {
				return c.Or(cond, b)
			}
			return c.And(c.Not(cond), b)
		}
		if b.Op == OConst {
			if b.K != 0 {
				return c.Or(c.Not(cond), a)
			}
			return c.And(cond, a)
		}
	}
	if a.Sort.K == KBV && a.Op == OConst && b.Op == OConst && !c.NoSimp {
		w := a.Sort.W
		if w == 1 {
			// ite(x == 1, 1, 0) over one bit is x itself
			if cond.Op == OEq {
				x, k := cond.Args[0], cond.Args[1]
				if x.Op == OConst {
					x, k = k, x
				}
				if k.Op == OConst && x.Sort.K == KBV && x.Sort.W == 1 {
					if (k.K == 1) == (a.K == 1) {
						return x
					}
					return c.Un(OBvNot, x)
				}
			}
		} else if b.K == 0 && a.K != 0 && a.K&(a.K-1) == 0 {
			// ite(c, 2^k, 0): a one-bit field at position k (lets or-chains of such terms fold into concats)
			k := bits.TrailingZeros64(a.K)
			return c.field(c.Ite(cond, c.BV(1, 1), c.BV(1, 0)), k, w)
		} else if a.K == 0 && b.K != 0 && b.K&(b.K-1) == 0 {
			k := bits.TrailingZeros64(b.K)
			return c.field(c.Ite(cond, c.BV(1, 0), c.BV(1, 1)), k, w)
		}
	}
	// ite(c, ite(c, x, y), z) = ite(c, x, z)
	if a.Op == OIte && a.Args[0] == cond {
		return c.Ite(cond, a.Args[1], b)
	}
	if b.Op == OIte && b.Args[0] == cond {
		return c.Ite(cond, a, b.Args[2])
	}
	return c.mk(OIte, a.Sort, 0, "", cond, a, b)
}

func (c *Ctx) Eq(a, b *Term) *Term {
	if a.Sort != b.Sort {
		panic(fmt.Sprintf("eq sort mismatch %v %v", a.Sort, b.Sort))
	}
	if a == b {
		if a.Sort.K != KFP { // structural equality of FP terms is fine for SMT "=" too
			return c.True
		}
		return c.True
	}
	if a.Op == OConst && b.Op == OConst {
		return c.Bool(a.K == b.K)
	}
	if a.Op == OConst {
		a, b = b, a
	}
	if a.Sort.K == KBool {
		if b.Op == OConst {
			if b.K != 0 {
				return a
			}
			return c.Not(a)
		}
	}
	if b.Op == OConst && a.Sort.K == KBV && a.Sort.W == 1 && b.K == 0 && !c.NoSimp {
		// canonical form of one-bit tests: x == 0  is  not (x == 1)
		return c.Not(c.Eq(a, c.BV(1, 1)))
	}
	if b.Op == OConst && a.Sort.K == KBV && !c.NoSimp {
		switch a.Op {
		case OIte:
			x, y := a.Args[1], a.Args[2]
			if x.Op == OConst || y.Op == OConst {
				return c.Ite(a.Args[0], c.Eq(x, b), c.Eq(y, b))
			}
		case OZExt:
			in := a.Args[0]
			if b.K&^mask(in.Sort.W) != 0 {
				return c.False
			}
			return c.Eq(in, c.BV(in.Sort.W, b.K))
		case OConcat:
			hi, lo := a.Args[0], a.Args[1]
			return c.And(c.Eq(hi, c.BV(hi.Sort.W, b.K>>uint(lo.Sort.W))), c.Eq(lo, c.BV(lo.Sort.W, b.K)))
		case OBvNot:
			return c.Eq(a.Args[0], c.BV(a.Sort.W, ^b.K))
		case OBvXor:
			if a.Args[1].Op == OConst {
				return c.Eq(a.Args[0], c.BV(a.Sort.W, b.K^a.Args[1].K))
			}
		case OBvAdd:
			if a.Args[1].Op == OConst {
				return c.Eq(a.Args[0], c.BV(a.Sort.W, b.K-a.Args[1].K))
			}
		}
		// known-zero bits conflict
		if zm := c.zeroMask(a); zm&b.K != 0 {
			return c.False
		}
	}
	if a.Sort.K == KBV && a.Sort.W == 1 && !c.NoSimp {
		// 1-bit: compare as xor
		if b.Op == OConst {
			// keep
		}
	}
	if a.ID > b.ID {
		a, b = b, a
	}
	return c.mk(OEq, BoolSort, 0, "", a, b)
}

// BoolToBV returns ite(b, 1, 0) of width w.
func (c *Ctx) BoolToBV(b *Term, w int) *Term { return c.Ite(b, c.BV(w, 1), c.BV(w, 0)) }

func (c *Ctx) Un(op Op, a *Term) *Term {
	w := a.Sort.W
	if a.Op == OConst {
		switch op {
		case OBvNot:
			return c.BV(w, ^a.K)
		case OBvNeg:
			return c.BV(w, -a.K)
		}
	}
	if a.Op == op && (op == OBvNot || op == OBvNeg) {
		return a.Args[0]
	}
	if op == OBvNot && a.Op == OIte && (a.Args[1].Op == OConst || a.Args[2].Op == OConst) && !c.NoSimp {
		return c.Ite(a.Args[0], c.Un(op, a.Args[1]), c.Un(op, a.Args[2]))
	}
	return c.mk(op, a.Sort, 0, "", a)
}

func evalBin(op Op, w int, x, y uint64) (uint64, bool) {
	m := mask(w)
	switch op {
	case OBvAnd:
		return x & y, true
	case OBvOr:
		return x | y, true
	case OBvXor:
		return x ^ y, true
	case OBvAdd:
		return (x + y) & m, true
	case OBvSub:
		return (x - y) & m, true
	case OBvMul:
		return (x * y) & m, true
	case OBvUDiv:
		if y == 0 {
			return m, true
		}
		return x / y, true
	case OBvURem:
		if y == 0 {
			return x, true
		}
		return x % y, true
	case OBvSDiv:
		sx, sy := sext(x, w), sext(y, w)
		if sy == 0 {
			if sx >= 0 {
				return m, true
			}
			return 1, true
		}
		if sy == -1 {
			return uint64(-sx) & m, true
		}
		return uint64(sx/sy) & m, true
	case OBvSRem:
		sx, sy := sext(x, w), sext(y, w)
		if sy == 0 {
			return x, true
		}
		if sy == -1 {
			return 0, true
		}
		return uint64(sx%sy) & m, true
	case OBvShl:
		if y >= uint64(w) {
			return 0, true
		}
		return (x << y) & m, true
	case OBvLShr:
		if y >= uint64(w) {
			return 0, true
		}
		return x >> y, true
	case OBvAShr:
		sx := sext(x, w)
		if y >= uint64(w) {
			y = uint64(w - 1)
			if w == 64 {
				y = 63
			}
		}
		return uint64(sx>>y) & m, true
	}
	return 0, false
}

func evalCmp(op Op, w int, x, y uint64) bool {
	switch op {
	case OBvULt:
		return x < y
	case OBvULe:
		return x <= y
	case OBvSLt:
		return sext(x, w) < sext(y, w)
	case OBvSLe:
		return sext(x, w) <= sext(y, w)
	}
	panic("evalCmp")
}

func commutative(op Op) bool {
	switch op {
	case OBvAnd, OBvOr, OBvXor, OBvAdd, OBvMul:
		return true
	}
	return false
}

// Bin builds a bit-vector binary operation (both args same width).
func (c *Ctx) Bin(op Op, a, b *Term) *Term {
	k := [3]int{int(op), a.ID, b.ID}
	if r, ok := c.binMemo[k]; ok {
		return r
	}
	r := c.bin(op, a, b)
	c.binMemo[k] = r
	return r
}

func (c *Ctx) bin(op Op, a, b *Term) *Term {
	if a.Sort != b.Sort || a.Sort.K != KBV {
		panic(fmt.Sprintf("bin %s sort mismatch %v %v", opNames[op], a.Sort, b.Sort))
	}
	w := a.Sort.W
	if a.Op == OConst && b.Op == OConst {
		v, _ := evalBin(op, w, a.K, b.K)
		return c.BV(w, v)
	}
	if commutative(op) && a.Op == OConst {
		a, b = b, a
	}
	m := mask(w)
	if c.NoSimp {
		return c.mk(op, a.Sort, 0, "", a, b)
	}
	switch op {
	case OBvAnd:
		if a == b {
			return a
		}
		if b.Op == OConst {
			if b.K == 0 {
				return b
			}
			if b.K == m {
				return a
			}
			// bits outside b known zero already?
			zm := c.zeroMask(a)
			if (^b.K&m)&^zm == 0 {
				return a
			}
			if a.Op == OBvAnd && a.Args[1].Op == OConst {
				return c.Bin(OBvAnd, a.Args[0], c.BV(w, b.K&a.Args[1].K))
			}
			// contiguous run of ones -> extract/concat
			if lo, hi, ok := runOfOnes(b.K, w); ok {
				return c.field(c.Extract(hi, lo, a), lo, w)
			}
			if a.Op == OIte && (a.Args[1].Op == OConst || a.Args[2].Op == OConst) {
				return c.Ite(a.Args[0], c.Bin(op, a.Args[1], b), c.Bin(op, a.Args[2], b))
			}
			if a.Op == OBvOr || a.Op == OBvXor {
				// distribute a constant mask over or/xor: usually kills most of the chain
				return c.Bin(a.Op, c.Bin(OBvAnd, a.Args[0], b), c.Bin(OBvAnd, a.Args[1], b))
			}
		}
		if c.zeroMask(a)|c.zeroMask(b) == m {
			return c.BV(w, 0)
		}
	case OBvOr:
		if a == b {
			return a
		}
		if b.Op == OConst {
			if b.K == 0 {
				return a
			}
			if b.K == m {
				return b
			}
			if a.Op == OBvOr && a.Args[1].Op == OConst {
				return c.Bin(OBvOr, a.Args[0], c.BV(w, b.K|a.Args[1].K))
			}
			if a.Op == OIte && (a.Args[1].Op == OConst || a.Args[2].Op == OConst) {
				return c.Ite(a.Args[0], c.Bin(op, a.Args[1], b), c.Bin(op, a.Args[2], b))
			}
		}
		// disjoint fields -> structural merge
		if r := c.mergeDisjoint(a, b); r != nil {
			return r
		}
	case OBvXor:
		if a == b {
			return c.BV(w, 0)
		}
		if b.Op == OConst {
			if b.K == 0 {
				return a
			}
			if a.Op == OBvXor && a.Args[1].Op == OConst {
				return c.Bin(OBvXor, a.Args[0], c.BV(w, b.K^a.Args[1].K))
			}
			if b.K == m {
				return c.Un(OBvNot, a)
			}
			if a.Op == OIte && (a.Args[1].Op == OConst || a.Args[2].Op == OConst) {
				return c.Ite(a.Args[0], c.Bin(op, a.Args[1], b), c.Bin(op, a.Args[2], b))
			}
		}
		if c.zeroMask(a)|c.zeroMask(b) == m {
			if r := c.mergeDisjoint(a, b); r != nil {
				return r
			}
		}
	case OBvAdd:
		if b.Op == OConst {
			if b.K == 0 {
				return a
			}
			if a.Op == OBvAdd && a.Args[1].Op == OConst {
				return c.Bin(OBvAdd, a.Args[0], c.BV(w, b.K+a.Args[1].K))
			}
			if a.Op == OIte && a.Args[1].Op == OConst && a.Args[2].Op == OConst {
				return c.Ite(a.Args[0], c.Bin(op, a.Args[1], b), c.Bin(op, a.Args[2], b))
			}
		}
	case OBvSub:
		if a == b {
			return c.BV(w, 0)
		}
		if b.Op == OConst {
			return c.Bin(OBvAdd, a, c.BV(w, -b.K))
		}
	case OBvMul:
		if b.Op == OConst {
			if b.K == 0 {
				return b
			}
			if b.K == 1 {
				return a
			}
			if bits.OnesCount64(b.K) == 1 {
				return c.Bin(OBvShl, a, c.BV(w, uint64(bits.TrailingZeros64(b.K))))
			}
			if a.Op == OIte && a.Args[1].Op == OConst && a.Args[2].Op == OConst {
				return c.Ite(a.Args[0], c.Bin(op, a.Args[1], b), c.Bin(op, a.Args[2], b))
			}
		}
	case OBvShl:
		if b.Op == OConst {
			k := int(b.K)
			if b.K == 0 {
				return a
			}
			if b.K >= uint64(w) {
				return c.BV(w, 0)
			}
			return c.Concat(c.Extract(w-1-k, 0, a), c.BV(k, 0))
		}
		if a.Op == OConst && a.K == 0 {
			return a
		}
	case OBvLShr:
		if b.Op == OConst {
			k := int(b.K)
			if b.K == 0 {
				return a
			}
			if b.K >= uint64(w) {
				return c.BV(w, 0)
			}
			return c.ZExt(w, c.Extract(w-1, k, a))
		}
		if a.Op == OConst && a.K == 0 {
			return a
		}
	case OBvAShr:
		if b.Op == OConst {
			if b.K == 0 {
				return a
			}
			k := w - 1
			if b.K < uint64(w) {
				k = int(b.K)
			}
			return c.SExt(w, c.Extract(w-1, k, a))
		}
	case OBvUDiv:
		if b.Op == OConst && b.K == 1 {
			return a
		}
		if b.Op == OConst && bits.OnesCount64(b.K) == 1 {
			return c.Bin(OBvLShr, a, c.BV(w, uint64(bits.TrailingZeros64(b.K))))
		}
	case OBvURem:
		if b.Op == OConst && bits.OnesCount64(b.K) == 1 {
			return c.Bin(OBvAnd, a, c.BV(w, b.K-1))
		}
	}
	return c.mk(op, a.Sort, 0, "", a, b)
}

// field places v (narrow) at bit offset lo inside a w-bit zero word.
func (c *Ctx) field(v *Term, lo, w int) *Term {
	r := v
	if lo > 0 {
		r = c.Concat(r, c.BV(lo, 0))
	}
	return c.ZExt(w, r)
}

func runOfOnes(k uint64, w int) (lo, hi int, ok bool) {
	if k == 0 {
		return 0, 0, false
	}
	lo = bits.TrailingZeros64(k)
	sh := k >> uint(lo)
	if sh&(sh+1) != 0 {
		return 0, 0, false
	}
	hi = lo + bits.Len64(sh) - 1
	return lo, hi, hi < w
}

// Cmp builds an unsigned/signed comparison.
func (c *Ctx) Cmp(op Op, a, b *Term) *Term {
	if a.Sort != b.Sort {
		panic("cmp sort mismatch")
	}
	w := a.Sort.W
	if a.Op == OConst && b.Op == OConst {
		return c.Bool(evalCmp(op, w, a.K, b.K))
	}
	if a == b {
		return c.Bool(op == OBvULe || op == OBvSLe)
	}
	if !c.NoSimp {
		// push through ite with constant arms
		if a.Op == OIte && b.Op == OConst && a.Args[1].Op == OConst && a.Args[2].Op == OConst {
			return c.Ite(a.Args[0], c.Cmp(op, a.Args[1], b), c.Cmp(op, a.Args[2], b))
		}
		if b.Op == OIte && a.Op == OConst && b.Args[1].Op == OConst && b.Args[2].Op == OConst {
			return c.Ite(b.Args[0], c.Cmp(op, a, b.Args[1]), c.Cmp(op, a, b.Args[2]))
		}
		// range reasoning from known-zero masks
		amax, bmax := mask(w)&^c.zeroMask(a), mask(w)&^c.zeroMask(b)
		top := uint64(1) << uint(w-1)
		switch op {
		case OBvULt:
			if b.Op == OConst && amax < b.K {
				return c.True
			}
			if a.Op == OConst && a.K >= bmax {
				return c.False
			}
			if b.Op == OConst && b.K == 0 {
				return c.False
			}
		case OBvULe:
			if b.Op == OConst && amax <= b.K {
				return c.True
			}
			if a.Op == OConst && a.K == 0 {
				return c.True
			}
			if a.Op == OConst && a.K > bmax {
				return c.False
			}
		case OBvSLt:
			if amax < top && b.Op == OConst && b.K < top && amax < b.K {
				return c.True
			}
			if amax < top && b.Op == OConst && (b.K >= top || b.K == 0) { // a >= 0, b <= 0
				return c.False
			}
			if bmax < top && a.Op == OConst && a.K >= top { // a < 0 <= b
				return c.True
			}
			if bmax < top && a.Op == OConst && a.K < top && a.K >= bmax {
				return c.False
			}
		case OBvSLe:
			if amax < top && b.Op == OConst && b.K < top && amax <= b.K {
				return c.True
			}
			if amax < top && b.Op == OConst && b.K >= top {
				return c.False
			}
			if bmax < top && a.Op == OConst && (a.K >= top || a.K == 0) {
				return c.True
			}
			if bmax < top && a.Op == OConst && a.K < top && a.K > bmax {
				return c.False
			}
		}
	}
	return c.mk(op, BoolSort, 0, "", a, b)
}

func (c *Ctx) Concat(a, b *Term) *Term {
	w := a.Sort.W + b.Sort.W
	if w > 64 {
		panic("concat wider than 64")
	}
	if a.Op == OConst && b.Op == OConst {
		return c.BV(w, a.K<<uint(b.Sort.W)|b.K)
	}
	if !c.NoSimp {
		if a.Op == OConst && a.K == 0 {
			return c.ZExt(w, b)
		}
		// adjacent extracts of the same term
		if a.Op == OExtract && b.Op == OExtract && a.Args[0] == b.Args[0] && a.Lo() == b.Hi()+1 {
			return c.Extract(a.Hi(), b.Lo(), a.Args[0])
		}
		// concat(x, concat(y, z)) where x,y adjacent extracts
		if b.Op == OConcat && a.Op == OExtract && b.Args[0].Op == OExtract && a.Args[0] == b.Args[0].Args[0] && a.Lo() == b.Args[0].Hi()+1 {
			return c.Concat(c.Extract(a.Hi(), b.Args[0].Lo(), a.Args[0]), b.Args[1])
		}
		if b.Op == OConcat && a.Op == OConst && b.Args[0].Op == OConst {
			return c.Concat(c.Concat(a, b.Args[0]), b.Args[1])
		}
		// right-associate
		if a.Op == OConcat {
			return c.Concat(a.Args[0], c.Concat(a.Args[1], b))
		}
		if a.Op == OZExt && b.Sort.W+a.Sort.W <= 64 {
			in := a.Args[0]
			return c.ZExt(w, c.Concat(in, b))
		}
	}
	return c.mk(OConcat, BVSort(w), 0, "", a, b)
}

func (c *Ctx) ZExt(w int, a *Term) *Term {
	if a.Sort.W == w {
		return a
	}
	if a.Sort.W > w {
		panic("zext narrower")
	}
	if a.Op == OConst {
		return c.BV(w, a.K)
	}
	if a.Op == OZExt {
		return c.ZExt(w, a.Args[0])
	}
	if a.Sort.W > 1 && a.Op == OIte && a.Args[1].Op == OConst && a.Args[2].Op == OConst && !c.NoSimp {
		return c.Ite(a.Args[0], c.ZExt(w, a.Args[1]), c.ZExt(w, a.Args[2]))
	}
	return c.mk(OZExt, BVSort(w), 0, "", a)
}

func (c *Ctx) SExt(w int, a *Term) *Term {
	if a.Sort.W == w {
		return a
	}
	if a.Sort.W > w {
		panic("sext narrower")
	}
	if a.Op == OConst {
		return c.BV(w, uint64(sext(a.K, a.Sort.W)))
	}
	if !c.NoSimp {
		if c.zeroMask(a)>>(uint(a.Sort.W)-1)&1 == 1 {
			return c.ZExt(w, a)
		}
		if a.Sort.W > 1 && a.Op == OIte && a.Args[1].Op == OConst && a.Args[2].Op == OConst {
			return c.Ite(a.Args[0], c.SExt(w, a.Args[1]), c.SExt(w, a.Args[2]))
		}
	}
	if a.Op == OSExt {
		return c.SExt(w, a.Args[0])
	}
	return c.mk(OSExt, BVSort(w), 0, "", a)
}

func (c *Ctx) Extract(hi, lo int, a *Term) *Term {
	if a.Op == OConst || a.Op == OVar {
		return c.extract(hi, lo, a)
	}
	k := [3]int{hi, lo, a.ID}
	if r, ok := c.exMemo[k]; ok {
		return r
	}
	r := c.extract(hi, lo, a)
	c.exMemo[k] = r
	return r
}

func (c *Ctx) extract(hi, lo int, a *Term) *Term {
	w := a.Sort.W
	if hi >= w || lo < 0 || hi < lo {
		panic(fmt.Sprintf("extract [%d:%d] of width %d", hi, lo, w))
	}
	nw := hi - lo + 1
	if nw == w {
		return a
	}
	if a.Op == OConst {
		return c.BV(nw, a.K>>uint(lo))
	}
	if !c.NoSimp {
		switch a.Op {
		case OExtract:
			return c.Extract(a.Lo()+hi, a.Lo()+lo, a.Args[0])
		case OConcat:
			lw := a.Args[1].Sort.W
			if hi < lw {
				return c.Extract(hi, lo, a.Args[1])
			}
			if lo >= lw {
				return c.Extract(hi-lw, lo-lw, a.Args[0])
			}
			return c.Concat(c.Extract(hi-lw, 0, a.Args[0]), c.Extract(lw-1, lo, a.Args[1]))
		case OZExt:
			iw := a.Args[0].Sort.W
			if hi < iw {
				return c.Extract(hi, lo, a.Args[0])
			}
			if lo >= iw {
				return c.BV(nw, 0)
			}
			return c.ZExt(nw, c.Extract(iw-1, lo, a.Args[0]))
		case OSExt:
			iw := a.Args[0].Sort.W
			if hi < iw {
				return c.Extract(hi, lo, a.Args[0])
			}
			if lo < iw {
				return c.SExt(nw, c.Extract(iw-1, lo, a.Args[0]))
			}
		case OBvAnd, OBvOr, OBvXor:
			return c.Bin(a.Op, c.Extract(hi, lo, a.Args[0]), c.Extract(hi, lo, a.Args[1]))
		case OBvNot:
			return c.Un(OBvNot, c.Extract(hi, lo, a.Args[0]))
		case OIte:
			if a.Args[1].Op == OConst || a.Args[2].Op == OConst || nw == 1 {
				return c.Ite(a.Args[0], c.Extract(hi, lo, a.Args[1]), c.Extract(hi, lo, a.Args[2]))
			}
		case OBvAdd, OBvSub, OBvMul, OBvNeg:
			if lo == 0 {
				if a.Op == OBvNeg {
					return c.Un(OBvNeg, c.Extract(hi, 0, a.Args[0]))
				}
				return c.Bin(a.Op, c.Extract(hi, 0, a.Args[0]), c.Extract(hi, 0, a.Args[1]))
			}
		case OBvShl:
			// variable shift: nothing
		}
		if zm := c.zeroMask(a); (zm>>uint(lo))&mask(nw) == mask(nw) {
			return c.BV(nw, 0)
		}
	}
	return c.mk(OExtract, BVSort(nw), uint64(hi)<<8|uint64(lo), "", a)
}

// Resize converts a bit-vector to width w: truncation, or zero/sign extension.
func (c *Ctx) Resize(a *Term, w int, signed bool) *Term {
	switch {
	case a.Sort.W == w:
		return a
	case a.Sort.W > w:
		return c.Extract(w-1, 0, a)
	case signed:
		return c.SExt(w, a)
	default:
		return c.ZExt(w, a)
	}
}

// Select builds elems[idx]; idx is a bit-vector; out-of-range indexes are unconstrained by the
// caller's bounds obligation (they yield the last element here).
func (c *Ctx) Select(idx *Term, elems []*Term) *Term {
	if len(elems) == 0 {
		panic("select on empty")
	}
	if idx.Op == OConst {
		i := idx.K
		if i >= uint64(len(elems)) {
			i = uint64(len(elems) - 1)
		}
		return elems[i]
	}
	same := true
	for _, e := range elems[1:] {
		if e != elems[0] {
			same = false
			break
		}
	}
	if same {
		return elems[0]
	}
	if idx.Op == OIte && idx.Args[1].Op == OConst && idx.Args[2].Op == OConst {
		return c.Ite(idx.Args[0], c.Select(idx.Args[1], elems), c.Select(idx.Args[2], elems))
	}
	if len(elems) <= 4 {
		r := elems[len(elems)-1]
		for i := len(elems) - 2; i >= 0; i-- {
			r = c.Ite(c.Eq(idx, c.BV(idx.Sort.W, uint64(i))), elems[i], r)
		}
		return r
	}
	args := make([]*Term, 0, len(elems)+1)
	args = append(args, idx)
	args = append(args, elems...)
	return c.mk(OSelect, elems[0].Sort, 0, "", args...)
}

// ---- floating point ----

func f64(t *Term) float64 { return math.Float64frombits(t.K) }

func (c *Ctx) FBin(op Op, a, b *Term) *Term {
	if a.Op == OConst && b.Op == OConst {
		x, y := f64(a), f64(b)
		switch op {
		case OFAdd:
			return c.FP(x + y)
		case OFSub:
			return c.FP(x - y)
		case OFMul:
			return c.FP(x * y)
		case OFDiv:
			return c.FP(x / y)
		case OFMin:
			return c.FP(math.Min(x, y))
		case OFMax:
			return c.FP(math.Max(x, y))
		}
	}
	return c.mk(op, FPSort, 0, "", a, b)
}

func (c *Ctx) FUn(op Op, a *Term) *Term {
	if a.Op == OConst {
		x := f64(a)
		switch op {
		case OFNeg:
			return c.FP(-x)
		case OFAbs:
			return c.FP(math.Abs(x))
		case OFSqrt:
			return c.FP(math.Sqrt(x))
		case OFFloor:
			return c.FP(math.Floor(x))
		case OFCeil:
			return c.FP(math.Ceil(x))
		case OFRoundRTZ:
			return c.FP(math.Trunc(x))
		}
	}
	return c.mk(op, FPSort, 0, "", a)
}

func (c *Ctx) FCmp(op Op, a, b *Term) *Term {
	if a.Op == OConst && b.Op == OConst {
		x, y := f64(a), f64(b)
		switch op {
		case OFLt:
			return c.Bool(x < y)
		case OFLe:
			return c.Bool(x <= y)
		case OFEq:
			return c.Bool(x == y)
		}
	}
	return c.mk(op, BoolSort, 0, "", a, b)
}

func (c *Ctx) FPred(op Op, a *Term) *Term {
	if a.Op == OConst {
		x := f64(a)
		switch op {
		case OFIsNaN:
			return c.Bool(math.IsNaN(x))
		case OFIsInf:
			return c.Bool(math.IsInf(x, 0))
		}
	}
	return c.mk(op, BoolSort, 0, "", a)
}

func (c *Ctx) IntToFP(a *Term, signed bool) *Term {
	if a.Op == OConst {
		if signed {
			return c.FP(float64(sext(a.K, a.Sort.W)))
		}
		return c.FP(float64(a.K))
	}
	if !c.NoSimp {
		// narrow: known leading zeros make the value non-negative and small
		zm := c.zeroMask(a)
		w := a.Sort.W
		if zm>>(uint(w)-1)&1 == 1 {
			n := bits.Len64(^zm & mask(w))
			if n == 0 {
				return c.FP(0)
			}
			if n < w {
				return c.mk(OUIToFP, FPSort, 0, "", c.Extract(n-1, 0, a))
			}
			return c.mk(OUIToFP, FPSort, 0, "", a)
		}
	}
	if signed {
		return c.mk(OSIToFP, FPSort, 0, "", a)
	}
	return c.mk(OUIToFP, FPSort, 0, "", a)
}

// FPToInt converts with truncation toward zero; the caller must have established that the value
// is in range (Go's behaviour is implementation-defined otherwise).
func (c *Ctx) FPToInt(a *Term, w int, signed bool) *Term {
	if a.Op == OConst {
		x := f64(a)
		if signed {
			return c.BV(w, uint64(int64(x)))
		}
		return c.BV(w, uint64(x))
	}
	if signed {
		return c.mk(OFPToSI, BVSort(w), 0, "", a)
	}
	return c.mk(OFPToUI, BVSort(w), 0, "", a)
}

func (c *Ctx) FFromBits(a *Term) *Term {
	if a.Op == OConst {
		return c.mk(OConst, FPSort, a.K, "")
	}
	return c.mk(OFFromBits, FPSort, 0, "", a)
}

// ---- known-zero analysis and disjoint-field merging ----

func (c *Ctx) zeroMask(t *Term) uint64 {
	if t.Sort.K != KBV {
		return 0
	}
	if t.zmOK {
		return t.zm
	}
	w := t.Sort.W
	m := mask(w)
	var z uint64
	switch t.Op {
	case OConst:
		z = ^t.K & m
	case OZExt:
		iw := t.Args[0].Sort.W
		z = (m &^ mask(iw)) | c.zeroMask(t.Args[0])
	case OConcat:
		lw := t.Args[1].Sort.W
		z = c.zeroMask(t.Args[0])<<uint(lw) | c.zeroMask(t.Args[1])
	case OExtract:
		z = (c.zeroMask(t.Args[0]) >> uint(t.Lo())) & m
	case OBvAnd:
		z = c.zeroMask(t.Args[0]) | c.zeroMask(t.Args[1])
	case OBvOr, OBvXor:
		z = c.zeroMask(t.Args[0]) & c.zeroMask(t.Args[1])
	case OIte:
		z = c.zeroMask(t.Args[1]) & c.zeroMask(t.Args[2])
	case OSelect:
		z = m
		for _, e := range t.Args[1:] {
			z &= c.zeroMask(e)
			if z == 0 {
				break
			}
		}
	case OBvURem:
		if t.Args[1].Op == OConst && t.Args[1].K != 0 {
			z = m &^ mask(bits.Len64(t.Args[1].K-1))
			if t.Args[1].K == 1 {
				z = m
			}
		}
	case OBvUDiv:
		if t.Args[1].Op == OConst && t.Args[1].K != 0 {
			z = c.zeroMask(t.Args[0])
			// leading zeros are preserved (divisor known non-zero)
			lz := bits.LeadingZeros64(^z&m) - (64 - w)
			if lz > 0 {
				z = m &^ mask(w-lz)
			} else {
				z = 0
			}
		}
	case OBvAdd:
		// leading zeros: max operand bits + 1
		a, b := m&^c.zeroMask(t.Args[0]), m&^c.zeroMask(t.Args[1])
		n := bits.Len64(a)
		if l := bits.Len64(b); l > n {
			n = l
		}
		if n+1 < w {
			z = m &^ mask(n+1)
		}
		// trailing zeros common
		tz := bits.TrailingZeros64(a | b)
		if tz > 0 && tz < 64 {
			z |= mask(tz)
		}
	case OBvMul:
		a, b := m&^c.zeroMask(t.Args[0]), m&^c.zeroMask(t.Args[1])
		n := bits.Len64(a) + bits.Len64(b)
		if n < w {
			z = m &^ mask(n)
		}
	}
	t.zm, t.zmOK = z&m, true
	return t.zm
}

type seg struct {
	t  *Term // nil => constant k
	k  uint64
	w  int
	hi int // when t != nil: bits [hi:lo] of t
	lo int
}

// segs decomposes structured terms MSB-first.
func (c *Ctx) segs(t *Term, out []seg) []seg {
	switch t.Op {
	case OConst:
		return append(out, seg{k: t.K, w: t.Sort.W})
	case OConcat:
		out = c.segs(t.Args[0], out)
		return c.segs(t.Args[1], out)
	case OZExt:
		out = append(out, seg{k: 0, w: t.Sort.W - t.Args[0].Sort.W})
		return c.segs(t.Args[0], out)
	case OExtract:
		return append(out, seg{t: t.Args[0], w: t.Sort.W, hi: t.Hi(), lo: t.Lo()})
	}
	return append(out, seg{t: t, w: t.Sort.W, hi: t.Sort.W - 1, lo: 0})
}

func (c *Ctx) segTerm(s seg) *Term {
	if s.t == nil {
		return c.BV(s.w, s.k)
	}
	return c.Extract(s.hi, s.lo, s.t)
}

func splitSeg(s seg, lowW int) (hi, lo seg) {
	// split s into high part (w-lowW bits) and low part (lowW bits)
	if s.t == nil {
		return seg{k: s.k >> uint(lowW), w: s.w - lowW}, seg{k: s.k & mask(lowW), w: lowW}
	}
	return seg{t: s.t, w: s.w - lowW, hi: s.hi, lo: s.lo + lowW}, seg{t: s.t, w: lowW, hi: s.lo + lowW - 1, lo: s.lo}
}

// mergeDisjoint returns a|b as a concatenation when no bit can be set in both and at least one of
// them is structured; nil if not applicable.
func (c *Ctx) mergeDisjoint(a, b *Term) *Term {
	w := a.Sort.W
	m := mask(w)
	za, zb := c.zeroMask(a), c.zeroMask(b)
	if za|zb != m {
		return nil
	}
	structured := func(t *Term) bool {
		return t.Op == OConcat || t.Op == OZExt || t.Op == OConst
	}
	if !structured(a) && !structured(b) {
		return nil
	}
	sa := c.segs(a, nil)
	sb := c.segs(b, nil)
	var parts []*Term
	ia, ib := 0, 0
	for ia < len(sa) && ib < len(sb) {
		x, y := sa[ia], sb[ib]
		if x.w > y.w {
			h, l := splitSeg(x, x.w-y.w)
			x = h
			sa[ia] = l
			ib++
		} else if y.w > x.w {
			h, l := splitSeg(y, y.w-x.w)
			y = h
			sb[ib] = l
			ia++
		} else {
			ia++
			ib++
		}
		tx, ty := c.segTerm(x), c.segTerm(y)
		zx, zy := c.zeroMask(tx), c.zeroMask(ty)
		mw := mask(x.w)
		switch {
		case zx == mw:
			parts = append(parts, ty)
		case zy == mw:
			parts = append(parts, tx)
		default:
			// both may contribute bits in this piece (bitwise disjoint but interleaved)
			parts = append(parts, c.mk(OBvOr, BVSort(x.w), 0, "", ordered(tx, ty)...))
		}
	}
	r := parts[len(parts)-1]
	for i := len(parts) - 2; i >= 0; i-- {
		r = c.Concat(parts[i], r)
	}
	if r.Sort.W != w {
		panic("mergeDisjoint width")
	}
	return r
}

func ordered(a, b *Term) []*Term {
	if a.ID > b.ID {
		return []*Term{b, a}
	}
	return []*Term{a, b}
}
