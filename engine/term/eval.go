package term

import (
	"fmt"
	"math"
)

// Model maps variable terms (by ID) to values (BV: value; Bool: 0/1; FP: IEEE bits).
type Model struct {
	Vals  map[int]uint64
	cache map[int]uint64
}

func NewModel() *Model { return &Model{Vals: map[int]uint64{}, cache: map[int]uint64{}} }

func (m *Model) Set(v *Term, x uint64) {
	m.Vals[v.ID] = x
	if len(m.cache) > 0 {
		m.cache = map[int]uint64{}
	}
}

// Eval evaluates t under m; unassigned variables evaluate to zero.
func (m *Model) Eval(t *Term) uint64 {
	if t.Op == OConst {
		return t.K
	}
	if v, ok := m.cache[t.ID]; ok {
		return v
	}
	v := m.eval(t)
	m.cache[t.ID] = v
	return v
}

func b2u(b bool) uint64 {
	if b {
		return 1
	}
	return 0
}

func (m *Model) eval(t *Term) uint64 {
	if t.Op == OVar {
		return m.Vals[t.ID]
	}
	return evalNode(t, func(i int) uint64 { return m.Eval(t.Args[i]) })
}

// evalNode evaluates one non-variable node given an evaluator for its i-th argument.
func evalNode(t *Term, ev func(int) uint64) uint64 {
	w := t.Sort.W
	switch t.Op {
	case OVar:
		panic("evalNode on variable")
	case ONot:
		return 1 - ev(0)
	case OAnd:
		if ev(0) == 0 {
			return 0
		}
		return ev(1)
	case OOr:
		if ev(0) != 0 {
			return 1
		}
		return ev(1)
	case OIte:
		if ev(0) != 0 {
			return ev(1)
		}
		return ev(2)
	case OEq:
		a, b := ev(0), ev(1)
		if t.Args[0].Sort.K == KFP {
			// SMT "=" on FP: identical values, all NaNs equal
			fa, fb := math.Float64frombits(a), math.Float64frombits(b)
			if math.IsNaN(fa) && math.IsNaN(fb) {
				return 1
			}
		}
		return b2u(a == b)
	case OBvNot:
		return ^ev(0) & mask(w)
	case OBvNeg:
		return -ev(0) & mask(w)
	case OBvAnd, OBvOr, OBvXor, OBvAdd, OBvSub, OBvMul, OBvUDiv, OBvURem, OBvSDiv, OBvSRem, OBvShl, OBvLShr, OBvAShr:
		v, _ := evalBin(t.Op, w, ev(0), ev(1))
		return v
	case OBvULt, OBvULe, OBvSLt, OBvSLe:
		return b2u(evalCmp(t.Op, t.Args[0].Sort.W, ev(0), ev(1)))
	case OConcat:
		return ev(0)<<uint(t.Args[1].Sort.W) | ev(1)
	case OExtract:
		return (ev(0) >> uint(t.Lo())) & mask(w)
	case OZExt:
		return ev(0)
	case OSExt:
		return uint64(sext(ev(0), t.Args[0].Sort.W)) & mask(w)
	case OSelect:
		i := ev(0)
		n := uint64(len(t.Args) - 1)
		if i >= n {
			i = n - 1
		}
		return ev(int(1 + i))
	case OFAdd, OFSub, OFMul, OFDiv, OFMin, OFMax:
		x, y := math.Float64frombits(ev(0)), math.Float64frombits(ev(1))
		var r float64
		switch t.Op {
		case OFAdd:
			r = x + y
		case OFSub:
			r = x - y
		case OFMul:
			r = x * y
		case OFDiv:
			r = x / y
		case OFMin:
			r = math.Min(x, y)
		case OFMax:
			r = math.Max(x, y)
		}
		return math.Float64bits(r)
	case OFNeg, OFAbs, OFSqrt, OFFloor, OFCeil, OFRoundRTZ:
		x := math.Float64frombits(ev(0))
		var r float64
		switch t.Op {
		case OFNeg:
			r = -x
		case OFAbs:
			r = math.Abs(x)
		case OFSqrt:
			r = math.Sqrt(x)
		case OFFloor:
			r = math.Floor(x)
		case OFCeil:
			r = math.Ceil(x)
		case OFRoundRTZ:
			r = math.Trunc(x)
		}
		return math.Float64bits(r)
	case OFLt, OFLe, OFEq:
		x, y := math.Float64frombits(ev(0)), math.Float64frombits(ev(1))
		switch t.Op {
		case OFLt:
			return b2u(x < y)
		case OFLe:
			return b2u(x <= y)
		default:
			return b2u(x == y)
		}
	case OFIsNaN:
		return b2u(math.IsNaN(math.Float64frombits(ev(0))))
	case OFIsInf:
		return b2u(math.IsInf(math.Float64frombits(ev(0)), 0))
	case OSIToFP:
		return math.Float64bits(float64(sext(ev(0), t.Args[0].Sort.W)))
	case OUIToFP:
		return math.Float64bits(float64(ev(0)))
	case OFPToSI:
		return uint64(int64(math.Float64frombits(ev(0)))) & mask(w)
	case OFPToUI:
		return uint64(math.Float64frombits(ev(0))) & mask(w)
	case OFFromBits:
		return ev(0)
	}
	panic(fmt.Sprintf("eval: op %s", opNames[t.Op]))
}

// Clone copies the assignment (not the evaluation cache).
func (m *Model) Clone() *Model {
	c := NewModel()
	for k, v := range m.Vals {
		c.Vals[k] = v
	}
	return c
}

// Compiled is a topologically ordered cone for repeated evaluation (truth-table decisions).
type Compiled struct {
	nodes   []*Term
	args    [][]int32 // slots of each node's arguments
	slot    map[int]int
	vals    []uint64
	Vars    []*Term
	varSlot []int
}

func Compile(roots ...*Term) *Compiled {
	c := &Compiled{slot: map[int]int{}}
	type item struct {
		t    *Term
		done bool
	}
	var stack []item
	for _, r := range roots {
		stack = append(stack, item{r, false})
	}
	for len(stack) > 0 {
		it := stack[len(stack)-1]
		stack = stack[:len(stack)-1]
		t := it.t
		if _, ok := c.slot[t.ID]; ok {
			continue
		}
		if !it.done && len(t.Args) > 0 {
			stack = append(stack, item{t, true})
			for _, a := range t.Args {
				if _, ok := c.slot[a.ID]; !ok {
					stack = append(stack, item{a, false})
				}
			}
			continue
		}
		c.slot[t.ID] = len(c.nodes)
		c.nodes = append(c.nodes, t)
		var as []int32
		for _, a := range t.Args {
			as = append(as, int32(c.slot[a.ID]))
		}
		c.args = append(c.args, as)
		if t.Op == OVar {
			c.Vars = append(c.Vars, t)
			c.varSlot = append(c.varSlot, len(c.nodes)-1)
		}
	}
	c.vals = make([]uint64, len(c.nodes))
	for i, t := range c.nodes {
		if t.Op == OConst {
			c.vals[i] = t.K
		}
	}
	return c
}

func (c *Compiled) Size() int { return len(c.nodes) }

// Hard reports whether the cone contains operators on which bit-blasting solvers tend to stall
// (table look-ups, multiplication, division).
func (c *Compiled) Hard() bool {
	for _, t := range c.nodes {
		switch t.Op {
		case OSelect, OBvMul, OBvUDiv, OBvURem, OBvSDiv, OBvSRem:
			return true
		}
	}
	return false
}

// Slot returns the value slot of a term of the cone (after RunVals).
func (c *Compiled) Value(t *Term) uint64 {
	if t.Op == OConst {
		return t.K
	}
	return c.vals[c.slot[t.ID]]
}

// RunVals evaluates all nodes with Vars[i] = vals[i].
func (c *Compiled) RunVals(varVals []uint64) {
	for i, s := range c.varSlot {
		c.vals[s] = varVals[i]
	}
	vals := c.vals
	for i, t := range c.nodes {
		switch t.Op {
		case OConst, OVar:
		case OSelect:
			as := c.args[i]
			idx := vals[as[0]]
			n := uint64(len(as) - 1)
			if idx >= n {
				idx = n - 1
			}
			vals[i] = vals[as[1+idx]]
		default:
			as := c.args[i]
			vals[i] = evalNode(t, func(k int) uint64 { return vals[as[k]] })
		}
	}
}

// Run evaluates all nodes under the assignment (by variable ID) and returns a reader.
func (c *Compiled) Run(assign map[int]uint64) func(*Term) uint64 {
	vv := make([]uint64, len(c.Vars))
	for i, v := range c.Vars {
		vv[i] = assign[v.ID]
	}
	c.RunVals(vv)
	return c.Value
}
