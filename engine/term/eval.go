package term

import (
	"fmt"
	"math"
)

// Model maps variable terms (by ID) to values (BV: value; Bool: 0/1; FP: IEEE bits).
type Model struct {
	Vals  map[int]uint64
	cache map[int]uint64
}

func NewModel() *Model { return &Model{Vals: map[int]uint64{}, cache: map[int]uint64{}} }

func (m *Model) Set(v *Term, x uint64) {
	m.Vals[v.ID] = x
	if len(m.cache) > 0 {
		m.cache = map[int]uint64{}
	}
}

// Eval evaluates t under m; unassigned variables evaluate to zero.
func (m *Model) Eval(t *Term) uint64 {
	if t.Op == OConst {
		return t.K
	}
	if v, ok := m.cache[t.ID]; ok {
		return v
	}
	v := m.eval(t)
	m.cache[t.ID] = v
	return v
}

func b2u(b bool) uint64 {
	if b {
		return 1
	}
	return 0
}

func (m *Model) eval(t *Term) uint64 {
	w := t.Sort.W
	switch t.Op {
	case OVar:
		return m.Vals[t.ID]
	case ONot:
		return 1 - m.Eval(t.Args[0])
	case OAnd:
		if m.Eval(t.Args[0]) == 0 {
			return 0
		}
		return m.Eval(t.Args[1])
	case OOr:
		if m.Eval(t.Args[0]) != 0 {
			return 1
		}
		return m.Eval(t.Args[1])
	case OIte:
		if m.Eval(t.Args[0]) != 0 {
			return m.Eval(t.Args[1])
		}
		return m.Eval(t.Args[2])
	case OEq:
		a, b := m.Eval(t.Args[0]), m.Eval(t.Args[1])
		if t.Args[0].Sort.K == KFP {
			// SMT "=" on FP: identical values, all NaNs equal
			fa, fb := math.Float64frombits(a), math.Float64frombits(b)
			if math.IsNaN(fa) && math.IsNaN(fb) {
				return 1
			}
		}
		return b2u(a == b)
	case OBvNot:
		return ^m.Eval(t.Args[0]) & mask(w)
	case OBvNeg:
		return -m.Eval(t.Args[0]) & mask(w)
	case OBvAnd, OBvOr, OBvXor, OBvAdd, OBvSub, OBvMul, OBvUDiv, OBvURem, OBvSDiv, OBvSRem, OBvShl, OBvLShr, OBvAShr:
		v, _ := evalBin(t.Op, w, m.Eval(t.Args[0]), m.Eval(t.Args[1]))
		return v
	case OBvULt, OBvULe, OBvSLt, OBvSLe:
		return b2u(evalCmp(t.Op, t.Args[0].Sort.W, m.Eval(t.Args[0]), m.Eval(t.Args[1])))
	case OConcat:
		return m.Eval(t.Args[0])<<uint(t.Args[1].Sort.W) | m.Eval(t.Args[1])
	case OExtract:
		return (m.Eval(t.Args[0]) >> uint(t.Lo())) & mask(w)
	case OZExt:
		return m.Eval(t.Args[0])
	case OSExt:
		return uint64(sext(m.Eval(t.Args[0]), t.Args[0].Sort.W)) & mask(w)
	case OSelect:
		i := m.Eval(t.Args[0])
		n := uint64(len(t.Args) - 1)
		if i >= n {
			i = n - 1
		}
		return m.Eval(t.Args[1+i])
	case OFAdd, OFSub, OFMul, OFDiv, OFMin, OFMax:
		x, y := math.Float64frombits(m.Eval(t.Args[0])), math.Float64frombits(m.Eval(t.Args[1]))
		var r float64
		switch t.Op {
		case OFAdd:
			r = x + y
		case OFSub:
			r = x - y
		case OFMul:
			r = x * y
		case OFDiv:
			r = x / y
		case OFMin:
			r = math.Min(x, y)
		case OFMax:
			r = math.Max(x, y)
		}
		return math.Float64bits(r)
	case OFNeg, OFAbs, OFSqrt, OFFloor, OFCeil, OFRoundRTZ:
		x := math.Float64frombits(m.Eval(t.Args[0]))
		var r float64
		switch t.Op {
		case OFNeg:
			r = -x
		case OFAbs:
			r = math.Abs(x)
		case OFSqrt:
			r = math.Sqrt(x)
		case OFFloor:
			r = math.Floor(x)
		case OFCeil:
			r = math.Ceil(x)
		case OFRoundRTZ:
			r = math.Trunc(x)
		}
		return math.Float64bits(r)
	case OFLt, OFLe, OFEq:
		x, y := math.Float64frombits(m.Eval(t.Args[0])), math.Float64frombits(m.Eval(t.Args[1]))
		switch t.Op {
		case OFLt:
			return b2u(x < y)
		case OFLe:
			return b2u(x <= y)
		default:
			return b2u(x == y)
		}
	case OFIsNaN:
		return b2u(math.IsNaN(math.Float64frombits(m.Eval(t.Args[0]))))
	case OFIsInf:
		return b2u(math.IsInf(math.Float64frombits(m.Eval(t.Args[0])), 0))
	case OSIToFP:
		return math.Float64bits(float64(sext(m.Eval(t.Args[0]), t.Args[0].Sort.W)))
	case OUIToFP:
		return math.Float64bits(float64(m.Eval(t.Args[0])))
	case OFPToSI:
		return uint64(int64(math.Float64frombits(m.Eval(t.Args[0])))) & mask(w)
	case OFPToUI:
		return uint64(math.Float64frombits(m.Eval(t.Args[0]))) & mask(w)
	case OFFromBits:
		return m.Eval(t.Args[0])
	}
	panic(fmt.Sprintf("eval: op %s", opNames[t.Op]))
}

// Clone copies the assignment (not the evaluation cache).
func (m *Model) Clone() *Model {
	c := NewModel()
	for k, v := range m.Vals {
		c.Vals[k] = v
	}
	return c
}
