package main

import (
	"crypto/sha256"
	"fmt"
	"go/types"
	"os"
	"path/filepath"
	"sort"
	"strings"

	"golang.org/x/tools/go/packages"
	"golang.org/x/tools/go/ssa"
	"golang.org/x/tools/go/ssa/ssautil"
)

const modPath = "github.com/makiuchi-d/gozxing"

var (
	repoDir    = envOr("GZV_REPO", "/repo")
	verifDir   = envOr("GZV_VERIF", "/verif")
	harnessDir = filepath.Join(verifDir, "harness")
)

func envOr(k, d string) string {
	if v := os.Getenv(k); v != "" {
		return v
	}
	return d
}

// overlayFiles maps virtual paths inside the repository to harness files under /verif/harness.
func overlayFiles() map[string]string {
	out := map[string]string{}
	filepath.Walk(harnessDir, func(p string, info os.FileInfo, err error) error {
		if err != nil || info.IsDir() || !strings.HasSuffix(p, ".go") {
			return nil
		}
		rel, _ := filepath.Rel(harnessDir, p)
		out[filepath.Join(repoDir, rel)] = p
		return nil
	})
	return out
}

type Program struct {
	Prog     *ssa.Program
	Pkgs     map[string]*ssa.Package // by import path
	InitPkgs []*ssa.Package          // gozxing packages in dependency order
}

func goEnv() []string {
	env := os.Environ()
	env = append(env, "GOFLAGS=-mod=mod", "GOPROXY=off", "GOSUMDB=off", "GOTOOLCHAIN=local", "GOWORK=off")
	return env
}

func loadProgram() (*Program, error) {
	ov := map[string][]byte{}
	for virt, real := range overlayFiles() {
		b, err := os.ReadFile(real)
		if err != nil {
			return nil, err
		}
		if strings.HasSuffix(virt, "_test.go") {
			continue
		}
		ov[virt] = b
	}
	cfg := &packages.Config{
		Mode:       packages.LoadAllSyntax,
		Dir:        repoDir,
		Env:        goEnv(),
		Overlay:    ov,
		BuildFlags: []string{"-tags=gzv"},
		Tests:      false,
	}
	initial, err := packages.Load(cfg, "./...")
	if err != nil {
		return nil, err
	}
	nerr := 0
	packages.Visit(initial, nil, func(p *packages.Package) {
		for _, e := range p.Errors {
			if strings.HasPrefix(p.PkgPath, modPath) {
				fmt.Fprintf(os.Stderr, "LOAD-ERROR %s: %v\n", p.PkgPath, e)
				nerr++
			}
		}
	})
	if nerr > 0 {
		return nil, fmt.Errorf("%d load errors in %s (the repository or a harness does not type-check)", nerr, modPath)
	}
	prog, _ := ssautil.AllPackages(initial, ssa.InstantiateGenerics)
	// Build function bodies for everything except golang.org/x/text (never interpreted: modelled in
	// sx/foreign.go); its table initialisers are by far the largest bodies in the program.
	for _, p := range prog.AllPackages() {
		if !strings.HasPrefix(p.Pkg.Path(), "golang.org/x/text") {
			p.Build()
		}
	}
	P := &Program{Prog: prog, Pkgs: map[string]*ssa.Package{}}
	for _, p := range prog.AllPackages() {
		P.Pkgs[p.Pkg.Path()] = p
	}
	// dependency order of module packages
	seen := map[string]bool{}
	var visit func(p *packages.Package)
	visit = func(p *packages.Package) {
		if seen[p.PkgPath] {
			return
		}
		seen[p.PkgPath] = true
		var imps []string
		for k := range p.Imports {
			imps = append(imps, k)
		}
		sort.Strings(imps)
		for _, k := range imps {
			visit(p.Imports[k])
		}
		if strings.HasPrefix(p.PkgPath, modPath) || initWhitelist[p.PkgPath] {
			if sp := P.Pkgs[p.PkgPath]; sp != nil {
				P.InitPkgs = append(P.InitPkgs, sp)
			}
		}
	}
	sort.Slice(initial, func(i, j int) bool { return initial[i].PkgPath < initial[j].PkgPath })
	for _, p := range initial {
		visit(p)
	}
	return P, nil
}

// standard-library packages whose initialisers are interpreted (tables used by pure functions)
var initWhitelist = map[string]bool{
	"math/bits":    true,
	"unicode/utf8": true,
	"strconv":      true,
	"math":         true,
	"image/color":  true,
	"image":        true,
}

func (P *Program) lookupFunc(pkgSuffix, name string) (*ssa.Function, error) {
	path := modPath
	if pkgSuffix != "" {
		path += "/" + pkgSuffix
	}
	p := P.Pkgs[path]
	if p == nil {
		return nil, fmt.Errorf("package %s not loaded", path)
	}
	f := p.Func(name)
	if f == nil {
		return nil, fmt.Errorf("harness %s.%s not found", path, name)
	}
	return f, nil
}

// funcHash is a digest of the SSA text of fn (evidence: what was encoded).
func funcHash(fn *ssa.Function) string {
	var sb strings.Builder
	fn.WriteTo(&sb)
	return fmt.Sprintf("%x", sha256.Sum256([]byte(sb.String())))[:16]
}

// lookupQualified resolves "sub/pkg.Func" or "sub/pkg.(*Type).method" (package path below the
// module root).
func (P *Program) lookupQualified(q string) (*ssa.Function, error) {
	if i := strings.Index(q, ".(*"); i >= 0 {
		pkgSuffix := q[:i]
		rest := q[i+3:]
		j := strings.Index(rest, ").")
		if j < 0 {
			return nil, fmt.Errorf("bad method name %q", q)
		}
		tname, mname := rest[:j], rest[j+2:]
		path := modPath
		if pkgSuffix != "" {
			path += "/" + pkgSuffix
		}
		p := P.Pkgs[path]
		if p == nil {
			return nil, fmt.Errorf("package %s not loaded", path)
		}
		t := p.Type(tname)
		if t == nil {
			return nil, fmt.Errorf("type %s.%s not found", path, tname)
		}
		f := P.Prog.LookupMethod(types.NewPointer(t.Type()), p.Pkg, mname)
		if f == nil {
			return nil, fmt.Errorf("method %s not found", q)
		}
		return f, nil
	}
	i := strings.LastIndex(q, ".")
	if i < 0 {
		return P.lookupFunc("", q)
	}
	return P.lookupFunc(q[:i], q[i+1:])
}
