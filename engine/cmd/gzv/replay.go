package main

import (
	"bytes"
	"context"
	"encoding/json"
	"fmt"
	"go/types"
	"os"
	"os/exec"
	"path/filepath"
	"regexp"
	"sort"
	"strings"
	"time"

	"golang.org/x/tools/go/ssa"
)

type ReplayFile struct {
	Property string      `json:"property"`
	Pkg      string      `json:"pkg"`
	Func     string      `json:"func"`
	Args     []int64     `json:"args"`
	Kind     string      `json:"kind"`
	Msg      string      `json:"msg"`
	Where    string      `json:"where"`
	Inputs   interface{} `json:"inputs"`
	Known    string      `json:"known,omitempty"`
}

func repoTreeID() string {
	out, err := exec.Command("git", "-C", repoDir, "rev-parse", "HEAD").Output()
	id := strings.TrimSpace(string(out))
	if err != nil {
		id = "unknown"
	}
	st, _ := exec.Command("git", "-C", repoDir, "status", "--porcelain").Output()
	if len(bytes.TrimSpace(st)) > 0 {
		id += "+dirty"
	}
	return id
}

var nonWord = regexp.MustCompile(`[^A-Za-z0-9]+`)

// replayFindings writes one replay file per finding and runs them against the natively compiled
// repository (go test with an overlay); verdicts are stored in the results.
func replayFindings(P *Program, results []TaskResult, prop string) {
	dir := filepath.Join(envOr("GZV_REPLAY_DIR", filepath.Join(verifDir, "replays")), prop)
	os.RemoveAll(dir)
	byPkg := map[string][]string{}
	type ref struct{ ri, fi int }
	refs := map[string]ref{}
	for ri := range results {
		r := &results[ri]
		r.Replays = make([]string, len(r.Res.Findings))
		r.Verdicts = make([]string, len(r.Res.Findings))
		for fi, f := range r.Res.Findings {
			os.MkdirAll(dir, 0o755)
			name := fmt.Sprintf("%s-%s-%d.json", r.Task.Func, nonWord.ReplaceAllString(strings.Trim(fmt.Sprint(r.Task.Args), "[]"), "_"), fi)
			path := filepath.Join(dir, name)
			rf := ReplayFile{Property: prop, Pkg: r.Task.Pkg, Func: r.Task.Func, Args: r.Task.Args, Kind: f.Kind, Msg: f.Msg, Where: f.Where, Inputs: f.Inputs, Known: r.Task.Confirm}
			if rf.Args == nil {
				rf.Args = []int64{}
			}
			b, _ := json.MarshalIndent(rf, "", " ")
			os.WriteFile(path, append(b, '\n'), 0o644)
			r.Replays[fi] = path
			r.Verdicts[fi] = "not-replayed"
			byPkg[r.Task.Pkg] = append(byPkg[r.Task.Pkg], path)
			refs[path] = ref{ri, fi}
		}
	}
	for pkg, files := range byPkg {
		verdicts := runNativeReplays(P, pkg, files)
		for path, v := range verdicts {
			rf := refs[path]
			f := results[rf.ri].Res.Findings[rf.fi]
			results[rf.ri].Verdicts[rf.fi] = judge(f.Kind, f.Msg, v)
		}
	}
}

// judge compares the native outcome with what the engine predicted.
func judge(kind, msg, native string) string {
	switch kind {
	case "assert":
		if strings.HasPrefix(native, "assert-failed: ") && strings.TrimPrefix(native, "assert-failed: ") == msg {
			return "reproduced: " + native
		}
		if strings.HasPrefix(native, "assert-failed: ") || strings.HasPrefix(native, "panic: ") {
			// a different assertion or a panic fired first on the same input: still a real violation
			return "reproduced (different site): " + native
		}
	case "shared-write":
		if strings.HasPrefix(native, "race: ") {
			return "reproduced: " + native
		}
	case "panic":
		if strings.HasPrefix(native, "panic: ") || native == "timeout" {
			return "reproduced: " + native
		}
		if strings.HasPrefix(native, "assert-failed: ") {
			return "reproduced (different site): " + native
		}
	}
	return "NOT reproduced: native outcome " + native
}

func paramConv(i int, t types.Type) string {
	switch b := t.Underlying().(type) {
	case *types.Basic:
		switch b.Kind() {
		case types.Bool:
			return fmt.Sprintf("a[%d] != 0", i)
		default:
			return fmt.Sprintf("%s(a[%d])", types.TypeString(t, func(p *types.Package) string { return p.Name() }), i)
		}
	}
	return "nil"
}

func harnessFuncs(p *ssa.Package) []*ssa.Function {
	var out []*ssa.Function
	for name, mem := range p.Members {
		if f, ok := mem.(*ssa.Function); ok && strings.HasPrefix(name, "Verif") && f.Signature.Recv() == nil {
			okSig := f.Signature.Results().Len() == 0
			for i := 0; i < f.Signature.Params().Len(); i++ {
				if _, basic := f.Signature.Params().At(i).Type().Underlying().(*types.Basic); !basic {
					okSig = false
				}
			}
			if okSig {
				out = append(out, f)
			}
		}
	}
	sort.Slice(out, func(i, j int) bool { return out[i].Name() < out[j].Name() })
	return out
}

func genReplayTest(p *ssa.Package) string {
	var sb strings.Builder
	fmt.Fprintf(&sb, "package %s\n\nimport (\n\t\"fmt\"\n\t\"os\"\n\t\"strings\"\n\t\"testing\"\n\n\t\"%s/zzverif\"\n)\n\n", p.Pkg.Name(), modPath)
	sb.WriteString("var verifHarnesses = map[string]func(a []int64){\n")
	for _, f := range harnessFuncs(p) {
		var args []string
		for i := 0; i < f.Signature.Params().Len(); i++ {
			args = append(args, paramConv(i, f.Signature.Params().At(i).Type()))
		}
		fmt.Fprintf(&sb, "\t%q: func(a []int64) { %s(%s) },\n", f.Name(), f.Name(), strings.Join(args, ", "))
	}
	sb.WriteString("}\n\n")
	sb.WriteString(`func TestVerifReplay(t *testing.T) {
	for _, f := range strings.Split(os.Getenv("VERIF_REPLAY_FILES"), ":") {
		if f != "" {
			fmt.Printf("VERIF-RESULT %s %s\n", f, verifReplayOne(f))
		}
	}
}

func verifReplayOne(path string) (verdict string) {
	r, err := zzverif.Load(path)
	if err != nil {
		return "load-error: " + err.Error()
	}
	fn := verifHarnesses[r.Func]
	if fn == nil {
		return "no-such-harness"
	}
	if r.Kind == "shared-write" {
		// run the harness in two goroutines at once; the race detector decides
		zzverif.RunConcurrently(2, func() { fn(r.Args) })
		return "concurrent-done"
	}
	defer func() {
		switch e := recover().(type) {
		case nil:
		case zzverif.AssertFailed:
			verdict = "assert-failed: " + e.Msg
		case zzverif.AssumeViolated:
			verdict = "assume-violated"
		case zzverif.InputsExhausted:
			verdict = "inputs-exhausted"
		default:
			verdict = strings.ReplaceAll(fmt.Sprintf("panic: %v", e), "\n", " ")
		}
	}()
	fn(r.Args)
	return "ok"
}
`)
	return sb.String()
}

// runNativeReplays runs the replay files of one package against the real build.
func runNativeReplays(P *Program, pkg string, files []string) map[string]string {
	out := map[string]string{}
	for _, f := range files {
		out[f] = "not-run"
	}
	path := modPath
	if pkg != "" {
		path += "/" + pkg
	}
	sp := P.Pkgs[path]
	if sp == nil {
		return out
	}
	tmp, err := os.MkdirTemp("", "gzv-replay-")
	if err != nil {
		return out
	}
	defer os.RemoveAll(tmp)
	testSrc := filepath.Join(tmp, "zz_verif_replay_test.go")
	os.WriteFile(testSrc, []byte(genReplayTest(sp)), 0o644)
	ov := map[string]string{}
	for virt, real := range overlayFiles() {
		ov[virt] = real
	}
	ov[filepath.Join(repoDir, pkg, "zz_verif_replay_test.go")] = testSrc
	ob, _ := json.Marshal(map[string]interface{}{"Replace": ov})
	ovPath := filepath.Join(tmp, "overlay.json")
	os.WriteFile(ovPath, ob, 0o644)

	// one file at a time would cost a link each; run all, but isolate hangs with a deadline per batch
	race := false
	run := func(batch []string, timeout time.Duration) (string, bool) {
		ctx, cancel := context.WithTimeout(context.Background(), timeout+240*time.Second)
		defer cancel()
		args := []string{"test", "-vet=off", "-count=1", "-overlay", ovPath, "-run", "^TestVerifReplay$",
			"-timeout", fmt.Sprintf("%ds", int(timeout.Seconds())), "-v"}
		if race {
			args = append(args, "-race")
		}
		cmd := exec.CommandContext(ctx, "go", append(args, "./"+pkg)...)
		cmd.Dir = repoDir
		cmd.Env = append(goEnv(), "VERIF_REPLAY_FILES="+strings.Join(batch, ":"))
		b, _ := cmd.CombinedOutput()
		return string(b), ctx.Err() == nil
	}
	parse := func(s string) {
		for _, line := range strings.Split(s, "\n") {
			if i := strings.Index(line, "VERIF-RESULT "); i >= 0 {
				rest := line[i+len("VERIF-RESULT "):]
				if j := strings.IndexByte(rest, ' '); j > 0 {
					out[rest[:j]] = rest[j+1:]
				}
			}
		}
	}
	// shared-write findings are replayed one at a time under the race detector
	var plain []string
	sites := map[string]string{}
	for _, f := range files {
		var rf ReplayFile
		if b, err := os.ReadFile(f); err == nil && json.Unmarshal(b, &rf) == nil && rf.Kind == "shared-write" {
			if prev, ok := sites[rf.Where]; ok {
				out[f] = out[prev] // same store site: one confirmation is enough
				continue
			}
			sites[rf.Where] = f
			race = true
			s1, _ := run([]string{f}, 120*time.Second)
			race = false
			switch {
			case strings.Contains(s1, "WARNING: DATA RACE"):
				out[f] = "race: " + raceSummary(s1)
			case strings.Contains(s1, "VERIF-RESULT "+f+" concurrent-done"):
				out[f] = "no-race"
			default:
				out[f] = "not-run: " + firstLine(strings.TrimSpace(s1))
			}
			continue
		}
		plain = append(plain, f)
	}
	files = plain
	if len(files) == 0 {
		return out
	}
	s, _ := run(files, 120*time.Second)
	parse(s)
	// files without a verdict: the batch died (timeout / fatal error); run them singly
	for _, f := range files {
		if out[f] == "not-run" {
			s1, _ := run([]string{f}, 30*time.Second)
			parse(s1)
			if out[f] == "not-run" {
				switch {
				case strings.Contains(s1, "panic: test timed out"):
					out[f] = "timeout"
				case strings.Contains(s1, "fatal error:") || strings.Contains(s1, "panic:"):
					out[f] = "panic: " + firstMatch(s1, `(?m)^(fatal error|panic): .*$`)
				default:
					out[f] = "not-run: " + firstLine(strings.TrimSpace(s1))
				}
			}
		}
	}
	return out
}

// raceSummary extracts the two conflicting accesses of the first race report.
func raceSummary(s string) string {
	var parts []string
	lines := strings.Split(s, "\n")
	for i, l := range lines {
		t := strings.TrimSpace(l)
		if (strings.HasPrefix(t, "Write at") || strings.HasPrefix(t, "Read at") || strings.HasPrefix(t, "Previous write at") || strings.HasPrefix(t, "Previous read at")) && i+1 < len(lines) {
			parts = append(parts, strings.Fields(t)[0]+" in "+strings.TrimSpace(lines[i+1]))
		}
		if len(parts) == 2 {
			break
		}
	}
	return strings.Join(parts, " / ")
}

func firstMatch(s, re string) string {
	return regexp.MustCompile(re).FindString(s)
}

func cmdReplay(args []string) int {
	if len(args) < 1 {
		fmt.Fprintln(os.Stderr, "usage: gzv replay <file>")
		return 2
	}
	b, err := os.ReadFile(args[0])
	if err != nil {
		fmt.Fprintln(os.Stderr, err)
		return 2
	}
	var rf ReplayFile
	if err := json.Unmarshal(b, &rf); err != nil {
		fmt.Fprintln(os.Stderr, err)
		return 2
	}
	P, err := loadProgram()
	if err != nil {
		fmt.Fprintln(os.Stderr, err)
		return 2
	}
	abs, _ := filepath.Abs(args[0])
	v := runNativeReplays(P, rf.Pkg, []string{abs})[abs]
	fmt.Printf("replay %s: harness %s.%s%v predicted %s %q; native: %s => %s\n", args[0], rf.Pkg, rf.Func, rf.Args, rf.Kind, rf.Msg, v, judge(rf.Kind, rf.Msg, v))
	if strings.HasPrefix(judge(rf.Kind, rf.Msg, v), "reproduced") {
		return 1
	}
	return 0
}
