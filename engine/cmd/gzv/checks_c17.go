package main

func init() {
	checks["C17"] = &CheckDef{
		Tasks: func(tier string, seed int64) []Task {
			var ts []Task
			thorough := tier == "thorough"
			// (a) views
			sizes := [][2]int64{{1, 1}, {3, 3}, {4, 3}, {2, 5}}
			if thorough {
				sizes = append(sizes, [2]int64{5, 5}, [2]int64{7, 4}, [2]int64{1, 6}, [2]int64{6, 1})
			}
			for kind := int64(0); kind <= 2; kind++ {
				for _, s := range sizes {
					w, h := s[0], s[1]
					ts = append(ts, Task{Func: "VerifC17Crop", Args: ints(kind, w, h, -1, 0, 0, 0), Note: "source kind (0 RGB, 1 planar YUV, 2 Go image), w, h; every rectangle with origin in [-2,w]x[-2,h], size in [1,w+2]x[1,h+2]; pixels free"})
					if w >= 3 && h >= 3 {
						ts = append(ts, Task{Func: "VerifC17Crop", Args: ints(kind, w, h, 1, 1, w-2, h-2), Note: "as above on a view that is itself a crop (offset 1,1): crop of a crop"})
						ts = append(ts, Task{Func: "VerifC17Crop", Args: ints(kind, w, h, 0, 1, w-1, h-1), Note: "crop of a crop, offset (0,1)"})
					}
					ts = append(ts, Task{Func: "VerifC17Invert", Args: ints(kind, w, h), Note: "invert, invert twice, crop of inverted"})
				}
				// regression probes of the repaired defect (crop reaching outside through the view's own offset / negative origin)
				ts = append(ts, Task{Func: "VerifC17CropOne", Args: ints(kind, 4, 4, 2, 2, 2, 2, 1, 1, 2, 2), Note: "rectangle inside the view's size but outside the underlying image"})
				ts = append(ts, Task{Func: "VerifC17CropOne", Args: ints(kind, 3, 3, -1, 0, 0, 0, -1, 0, 2, 2), Note: "negative origin"})
			}
			for _, s := range sizes {
				w, h := s[0], s[1]
				ts = append(ts, Task{Func: "VerifC17Rotate", Args: ints(w, h, -1, 0, 0, 0), Note: "four counter-clockwise quarter turns of a Go-image source, each compared with the model"})
				if w >= 3 && h >= 2 {
					ts = append(ts, Task{Func: "VerifC17Rotate", Args: ints(w, h, 1, 0, w-2, h-1), Note: "rotation of a cropped non-square view"})
				}
			}
			// planar YUV: sub-rectangles of the plane, horizontal mirroring, rectangles outside the plane
			for _, a := range [][6]int64{{4, 4, 1, 1, 2, 2}, {6, 4, 2, 1, 3, 2}, {4, 4, 0, 0, 4, 4}, {5, 3, 0, 1, 5, 2}, {3, 5, 1, 0, 2, 5}, {4, 2, 3, 0, 2, 2}, {4, 4, -1, 0, 2, 2}, {4, 4, 1, 3, 2, 2}, {2, 2, 0, 0, 1, 1}} {
				for rev := int64(0); rev <= 1; rev++ {
					ts = append(ts, Task{Func: "VerifC17YUV", Args: ints(a[0], a[1], a[2], a[3], a[4], a[5], rev), Note: "plane dw x dh (free bytes, chroma appended), rectangle l, t, w, h, mirrored?: rows, matrix and every crop against the model; constructor refuses rectangles outside the plane"})
				}
			}
			// (c) luminance from colour
			ts = append(ts, Task{Func: "VerifC17FromPixels", Args: ints(3, 2), Note: "free 32-bit pixels: (r+2g+b)/4, greys exact"})
			for kind := int64(0); kind <= 2; kind++ {
				ts = append(ts, Task{Func: "VerifC17FromImage", Args: ints(kind, 2, 2), Note: "image kind (0 Gray, 1 NRGBA, 2 RGBA), bounds starting at (2,3); free grey level, alpha in {0,255}"})
			}
			// (b) binarisers on bilevel images
			gm := [][2]int64{{1, 1}, {2, 2}, {3, 3}, {4, 4}, {5, 3}, {2, 8}}
			if thorough {
				gm = append(gm, [2]int64{5, 4}, [2]int64{6, 5}, [2]int64{10, 2})
			}
			for _, s := range gm {
				ts = append(ts, Task{Func: "VerifC17GlobalMatrix", Args: s[:], Note: "every pixel a free black/white bit; GlobalHistogramBinarizer.GetBlackMatrix", Timeout: 900})
				ts = append(ts, Task{Func: "VerifC17HybridMatrix", Args: s[:], Note: "same through HybridBinarizer (< 40 pixels: delegates to the global method)", Timeout: 900})
			}
			rows := [][4]int64{{1, 1, 0, 0}, {2, 1, 0, 0}, {3, 1, 0, 1}, {8, 2, 1, 0}, {12, 1, 0, 3}, {16, 1, 0, 0}, {5, 2, 2, 0}, {5, 2, -1, 1}}
			if thorough {
				rows = append(rows, [4]int64{20, 1, 0, 0}, [4]int64{18, 3, 2, 2})
			}
			for _, r := range rows {
				ts = append(ts, Task{Func: "VerifC17GlobalRow", Args: r[:], Note: "w, h, row, reuse (dirty buffer of w+reuse-1 bits); every pixel a free bit; sharpened-threshold model", Timeout: 900})
			}
			hb := [][5]int64{{40, 40, -1, -1, 0}, {45, 43, -1, -1, 0}, {40, 41, -1, -1, 0}, {41, 40, -1, -1, 0}, {48, 45, -1, -1, 0}, {47, 41, 5, 5, 8}, {40, 40, 2, 2, 8}}
			if thorough {
				hb = append(hb, [5]int64{40, 40, 0, 0, 8}, [5]int64{40, 40, 4, 4, 8}, [5]int64{48, 40, 5, 2, 8}, [5]int64{41, 47, 0, 5, 8}, [5]int64{56, 56, -1, -1, 0}, [5]int64{40, 40, 2, 2, 12})
			}
			for _, r := range hb {
				ts = append(ts, Task{Func: "VerifC17HybridBlock", Args: r[:], Note: "w, h >= 40 (local method): one free bit per 8x8 block, block (bx,by) with k free pixels", Timeout: 1500})
			}
			return ts
		},
		Bounds: func(tier string) map[string]interface{} {
			return map[string]interface{}{
				"yuv":        "planar-YUV planes of up to 6x4 free bytes with sub-rectangle views, mirrored or not, and rectangles outside the plane",
				"views":      "RGB, planar-YUV and Go-image sources of 1x1 .. 4x3 / 2x5 (thorough up to 7x4) pixels, every pixel a free byte; every crop rectangle with origin in [-2,w]x[-2,h] and size in [1,w+2]x[1,h+2], on the full image and on views that are themselves crops; invert, double invert, crop of inverted; four quarter turns of full and cropped Go-image views; GetMatrix and every GetRow (incl. one row outside on each side) compared with a naive 2-D model. Decided by the term layer: pixel terms are compared as hash-consed terms, so an obligation that discharges holds for every pixel value",
				"colour":     "NewRGBLuminanceSource on 3x2 free 32-bit pixels; NewLuminanceSourceFromImage on 2x2 Gray/NRGBA/RGBA images with non-zero bounds origin, free grey level, alpha 0 or 255",
				"global":     "bilevel images of up to 16 (thorough 30) free pixels through GetBlackMatrix of both binarisers; rows of up to 16 (20) free pixels through GetBlackRow with fresh and dirty buffers",
				"hybrid":     "40x40 .. 47x43 (thorough 56x56) images of uniformly black/white 8x8 blocks (one free bit each, incl. the partial edge blocks) with one block holding 8 (12) free pixels",
				"operations": "compositions of at most 2 crops, crop+invert, crop+4 rotations; not arbitrary sequences of 6",
			}
		},
		Exhaustive:  func(tier string) bool { return false },
		Outside:     []string{"images larger than the stated sizes (1..200 in the property); view-operation sequences longer than crop-crop / crop-rotate^4 / invert-invert-crop", "grey (non-bilevel) images through the binarisers; hybrid binariser on images with more than one non-uniform block or more than 12 free pixels in it (solver does not finish: 16 free pixels in a block came back unknown)", "rendered symbols of the writers at all scales as binariser input", "BinaryBitmap's caching wrapper (GetBlackMatrix cache) is exercised only through the binarisers directly", "semi-transparent pixels and non-grey colours through NewLuminanceSourceFromImage"},
		Assumptions: commonAssumptions,
	}
}
