package main

import "sort"

// CheckDef describes one property's check: the harness tasks per tier and the claim's fine print.
type CheckDef struct {
	Tasks       func(tier string, seed int64) []Task
	Bounds      func(tier string) map[string]interface{}
	Exhaustive  func(tier string) bool
	Outside     []string
	Stubs       []string
	Assumptions []string
}

var checks = map[string]*CheckDef{}

func checkIDs() []string {
	var ids []string
	for id := range checks {
		ids = append(ids, id)
	}
	sort.Strings(ids)
	return ids
}

var commonAssumptions = []string{
	"soundness of z3 4.8.12 / cvc5 1.0.3 on QF_ABV/QF_FP queries; every (error line or unknown is treated as inconclusive, never as a pass",
	"the SSA produced by golang.org/x/tools/go/ssa v0.29.0 from /repo's working tree is a faithful rendering of the Go source",
	"the engine's SSA->SMT translation (validated by native replays of counter-models and by the term simplifier's differential test)",
	"int is 64 bits; no goroutines; package initialisers of gozxing are executed concretely before each harness",
}

func ints(xs ...int64) []int64 { return xs }

func init() {
	checks["C16"] = &CheckDef{
		Tasks: func(tier string, seed int64) []Task {
			var ts []Task
			widths := []int64{1, 5, 31, 32, 33, 63, 64, 65, 96, 130}
			heights := []int64{1, 2, 3, 8}
			sizes := []int64{0, 1, 31, 32, 33, 64, 65, 100}
			if tier == "thorough" {
				widths, heights, sizes = nil, nil, nil
				for w := int64(1); w <= 130; w++ {
					widths = append(widths, w)
				}
				for h := int64(1); h <= 8; h++ {
					heights = append(heights, h)
				}
				for n := int64(0); n <= 200; n++ {
					sizes = append(sizes, n)
				}
			}
			for _, w := range widths {
				for _, h := range heights {
					if w*h <= 66 || (tier == "thorough" && w*h <= 140) {
						ts = append(ts, Task{Func: "VerifC16MatrixQueries", Args: ints(w, h), Note: "width,height"})
					}
					for op := int64(0); op < 3; op++ {
						ts = append(ts, Task{Func: "VerifC16MatrixPointOps", Args: ints(w, h, op), Note: "width,height,op(Set/Unset/Flip)"})
					}
					for op := int64(0); op < 5; op++ {
						ts = append(ts, Task{Func: "VerifC16MatrixWholeOps", Args: ints(w, h, op), Note: "width,height,op(Clear/FlipAll/Xor/Rotate180/Rotate90)"})
					}
					ts = append(ts, Task{Func: "VerifC16MatrixSetRegion", Args: ints(w, h), Note: "width,height"})
					ts = append(ts, Task{Func: "VerifC16MatrixRows", Args: ints(w, h), Note: "width,height"})
					if w*h <= 8 || (tier == "thorough" && w*h <= 12) {
						ts = append(ts, Task{Func: "VerifC16MatrixStringRoundTrip", Args: ints(w, h), Note: "width,height"})
					}
					ts = append(ts, Task{Func: "VerifC16MatrixBoolMap", Args: ints(w, h), Note: "width,height"})
				}
			}
			ts = append(ts, Task{Func: "VerifC16MatrixConstructor"})
			for _, d := range [][4]int64{{32, 2, 33, 2}, {32, 2, 32, 3}, {33, 1, 64, 1}, {5, 5, 5, 5}, {64, 1, 33, 1}} {
				ts = append(ts, Task{Func: "VerifC16MatrixXorMismatch", Args: d[:], Note: "w,h,w2,h2"})
			}
			for _, n := range sizes {
				ts = append(ts, Task{Func: "VerifC16ArrayQueries", Args: ints(n), Note: "size"})
				ts = append(ts, Task{Func: "VerifC16ArrayIsRange", Args: ints(n), Note: "size"})
				ts = append(ts, Task{Func: "VerifC16ArrayToBytes", Args: ints(n), Note: "size"})
				ts = append(ts, Task{Func: "VerifC16ArrayPointOps", Args: ints(n, 0), Note: "size,Set"})
				ts = append(ts, Task{Func: "VerifC16ArrayPointOps", Args: ints(n, 1), Note: "size,Flip"})
				ts = append(ts, Task{Func: "VerifC16ArraySetBulk", Args: ints(n), Note: "size"})
				ts = append(ts, Task{Func: "VerifC16ArraySetRange", Args: ints(n), Note: "size"})
				ts = append(ts, Task{Func: "VerifC16ArrayReverse", Args: ints(n), Note: "size"})
				for _, k := range []int64{0, 1, 7, 31, 32} {
					ts = append(ts, Task{Func: "VerifC16ArrayAppend", Args: ints(n, k), Note: "size,bits appended"})
				}
				ts = append(ts, Task{Func: "VerifC16ArrayXor", Args: ints(n, n), Note: "size,size"})
				ts = append(ts, Task{Func: "VerifC16ArrayXor", Args: ints(n, n+1), Note: "size,other size"})
				if n <= 70 {
					ts = append(ts, Task{Func: "VerifC16ArrayFromEmpty", Args: ints(n), Note: "bits appended to NewEmptyBitArray"})
				}
			}
			ts = append(ts, Task{Func: "VerifC16ArrayXorEmpty"})
			grown := []int64{0, 1, 7, 8, 31, 32, 33, 49, 63, 64, 65, 97, 128, 129}
			if tier == "thorough" {
				grown = nil
				for n := int64(0); n <= 160; n++ {
					grown = append(grown, n)
				}
			}
			for _, n := range grown {
				for st := int64(0); st < 3; st++ {
					ts = append(ts, Task{Func: "VerifC16ArrayGrown", Args: ints(n, st), Note: "bits appended to NewEmptyBitArray (free), growth style (single bits, 8-bit chunks, AppendBitArray); then queries, Xor, Reverse, AppendBit"})
				}
			}
			return ts
		},
		Bounds: func(tier string) map[string]interface{} {
			if tier == "thorough" {
				return map[string]interface{}{"matrix_width": "1..130 (all)", "matrix_height": "1..8 (all)", "array_size": "0..200 (all)", "history": "one operation from an arbitrary valid state (inductive step); contents free"}
			}
			return map[string]interface{}{"matrix_width": "{1,5,31,32,33,63,64,65,96,130}", "matrix_height": "{1,2,3,8}", "array_size": "{0,1,31,32,33,64,65,100}", "history": "one operation from an arbitrary valid state (inductive step); contents free"}
		},
		Exhaustive: func(tier string) bool { return tier == "thorough" },
		Outside:    []string{"widths > 130, heights > 8, array sizes > 200", "SetRow with a row whose size differs from the width; SetBulk with bits beyond size (excluded by the methods' contracts)"},
		Stubs:      []string{"xerrors.New/Errorf -> opaque error value", "math/bits.Reverse32/TrailingZeros32 -> exact bit-vector definitions"},
		Assumptions: append([]string{
			"representation invariant assumed for the pre-state: len(bits)==rowSize*height, rowSize==(width+31)/32, bits beyond width/size are zero; it is re-established (asserted) after every operation, so histories of any length follow by induction",
		}, commonAssumptions...),
	}
}
