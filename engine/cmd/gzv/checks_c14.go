package main

func init() {
	checks["C14"] = &CheckDef{
		Tasks: func(tier string, seed int64) []Task {
			var ts []Task
			ns := []int64{1, 2, 3, 5}
			qs := []int64{0, 1, 4, 7, 20}
			if tier == "thorough" {
				ns = []int64{1, 2, 3, 4, 5, 6, 8}
				qs = nil
				for q := int64(0); q <= 20; q++ {
					qs = append(qs, q)
				}
			}
			for _, n := range ns {
				for _, q := range qs {
					ts = append(ts, Task{Pkg: "qrcode", Func: "VerifC14QR", Args: ints(n, q), Note: "symbol modules per side (all free), quiet zone; 11 x 11 boundary-relevant requested sizes"})
				}
			}
			dms := [][2]int64{{1, 1}, {2, 2}, {3, 2}, {5, 3}, {8, 8}, {18, 8}}
			if tier == "thorough" {
				dms = append(dms, [2]int64{10, 10}, [2]int64{32, 8}, [2]int64{7, 4}, [2]int64{4, 7})
			}
			for _, d := range dms {
				ts = append(ts, Task{Pkg: "datamatrix", Func: "VerifC14DM", Args: d[:], Note: "symbol width, height (all modules free); 10 x 10 requested sizes"})
			}
			n1 := []int64{1, 2, 3, 6, 12}
			if tier == "thorough" {
				n1 = append(n1, 4, 5, 9, 20)
			}
			for _, n := range n1 {
				for _, q := range qs {
					ts = append(ts, Task{Pkg: "oned", Func: "VerifC141D", Args: ints(n, q), Note: "code modules (all free), margin; 11 requested widths x 4 heights"})
				}
			}
			return ts
		},
		Bounds: func(tier string) map[string]interface{} {
			return map[string]interface{}{
				"qr": "module matrices of 1,2,3,5 (thorough up to 8) modules per side with every module free; quiet zone {0,1,4,7,20} (thorough 0..20); requested width and height each from {0,1,n,f-1,f,f+1,2f-1,2f,2f+1,3f+2,8n+8}, f = n+2q; every output pixel compared with the property's formula",
				"dm": "symbols 1x1 .. 18x8 with every module free; requested sizes {0,1,n-1,n,n+1,2n-1,2n,2n+1,3n+2,8n} per axis",
				"1d": "codes of 1..12 (20) free modules; margins as for QR; widths as for QR, heights {0,1,2,7}",
			}
		},
		Exhaustive:  func(tier string) bool { return false },
		Outside:     []string{"symbols larger than the stated sizes (the scaling arithmetic does not depend on the module count beyond what these sizes exercise: argued, not proved)", "requested sizes other than the enumerated boundary values; negative margins (C12)"},
		Assumptions: commonAssumptions,
	}
}
