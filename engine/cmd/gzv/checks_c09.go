package main

func init() {
	checks["C09"] = &CheckDef{
		Tasks: func(tier string, seed int64) []Task {
			var ts []Task
			thorough := tier == "thorough"
			// 1-D: upside down (orientation 180) and sideways with TRY_HARDER
			for wi := int64(0); wi <= 9; wi++ {
				n := c03Len[wi]
				for rot := int64(1); rot <= 3; rot++ {
					pos := [][2]int64{{(wi + rot) % n, -1}}
					if thorough {
						pos = nil
						for i := int64(0); i < n; i++ {
							pos = append(pos, [2]int64{i, -1})
						}
						if wi <= 3 || wi == 7 || wi == 8 {
							pos = append(pos, [2]int64{0, n - 1}, [2]int64{1, n / 2})
						}
					} else if rot == 2 && (wi <= 3 || wi == 7 || wi == 8) {
						pos = append(pos, [2]int64{0, n - 1})
					}
					for _, p := range pos {
						ts = append(ts, Task{Pkg: "oned", Func: "VerifC09OneD", Args: ints(wi, p[0], p[1], rot), Timeout: 900,
							Note: "writer, positions of free characters, quarter turns: 2 = upside down (must read, ORIENTATION 180), 1/3 = sideways (must read with TRY_HARDER)"})
					}
				}
			}
			// QR mirrored at the decoder: all 32 (level, mask), several content classes
			for l := int64(0); l < 4; l++ {
				for m := int64(0); m < 8; m++ {
					kind := (l + m) % 4
					n := []int64{7, 3, 3, 2}[kind]
					ver := int64(0)
					if thorough && m%4 == 3 {
						ver = 7 // version information present
					}
					ts = append(ts, Task{Pkg: "qrcode", Func: "VerifC09QRMirror", Args: ints(kind, n, l, m, ver), Redirect: qrStubs(), Timeout: 300,
						Note: "content class, free characters, level, mask, version: real encoder -> transposed matrix -> real Decoder.Decode: same content, mirrored flag"})
					if thorough {
						ts = append(ts, Task{Pkg: "qrcode", Func: "VerifC09QRMirror", Args: ints((kind+1)%4, n, l, m, 2), Redirect: qrStubs(), Timeout: 300})
					}
				}
			}
			ts = append(ts, Task{Pkg: "qrcode", Func: "VerifC09QRMirror", Args: ints(0, 9, 1, 2, 7), Redirect: qrStubs(), Timeout: 300, Note: "version 7: version information blocks swap under transposition"})
			// concrete located paths (binariser -> detector -> decoder) under padding, scale, rotation, mirroring
			for i := int64(0); i <= 1; i++ {
				for rot := int64(0); rot < 4; rot++ {
					for mir := int64(0); mir <= 1; mir++ {
						s := 2 + (rot+mir+i)%3
						if thorough {
							for s = 1; s <= 6; s++ {
								ts = append(ts, Task{Pkg: "qrcode", Func: "VerifC09QRImage", Args: ints(i, s, 4, rot, mir)})
								ts = append(ts, Task{Pkg: "qrcode", Func: "VerifC09QRImage", Args: ints(i, s, s%3, rot, mir)})
							}
							continue
						}
						ts = append(ts, Task{Pkg: "qrcode", Func: "VerifC09QRImage", Args: ints(i, s, 4, rot, mir), Note: "concrete content, pixels per module, quiet zone, quarter turns, mirrored: content or a reader error, never other content"})
					}
				}
			}
			for i := int64(0); i <= 1; i++ {
				ts = append(ts, Task{Pkg: "datamatrix", Func: "VerifC18DM", Args: ints(i), Note: "Data Matrix written, padded, located and read (concrete content)"})
				for rot := int64(0); rot < 4; rot++ {
					ts = append(ts, Task{Pkg: "datamatrix", Func: "VerifC09DMImage", Args: ints(i, 150-60*((rot+i)%2), 10-4*(rot%2), rot), Note: "Data Matrix: concrete content, requested size, white border, quarter turns: content or a reader error"})
					if thorough {
						ts = append(ts, Task{Pkg: "datamatrix", Func: "VerifC09DMImage", Args: ints(i, 200, 0, rot)}, Task{Pkg: "datamatrix", Func: "VerifC09DMImage", Args: ints(i, 60, 3, rot)})
					}
				}
			}
			return ts
		},
		Bounds: func(tier string) map[string]interface{} {
			return map[string]interface{}{
				"oned":      "templates of C03 with one (thorough: every position; two for digit symbologies and Codabar) free character over the alphabet, written at height 24, turned by 1, 2, 3 quarter turns; reading through the image path, TRY_HARDER for sideways",
				"qr_mirror": "all 32 (level, mask) configurations with 2..7 (thorough also a second class) free characters of digits/alphanumeric/bytes/UTF-8, versions 1 (chosen), 2, 7: transposed module matrix through the real Decoder.Decode; Reed-Solomon stubbed on both sides, configurations whose un-mirrored format read would succeed are skipped (none occurred)",
				"located":   "two concrete contents, 2..4 (thorough 1..6) pixels per module, quiet zone 4 (and 0..2), four rotations, mirrored or not, through binariser, detector and decoder; Data Matrix: two concrete contents with a white border of 6 or 10 pixels in all four orientations",
			}
		},
		Exhaustive:  func(tier string) bool { return false },
		Outside:     []string{"'never different content' for arbitrary damaged or mis-sampled grids rests on the Reed-Solomon/BCH/check-digit layers (C04, C05, C10) and is not re-established through the detectors here", "free content through the locating path (detector control flow depends on every pixel: not encodable within reach); the located tasks are concrete paths", "non-integer scales, perspective, noise"},
		Stubs:       []string{"generateECBytes -> verifStubEC and (*Decoder).correctErrors -> no-op in the QR mirror tasks"},
		Assumptions: commonAssumptions,
	}
}
