package main

func init() {
	checks["C06"] = &CheckDef{
		Tasks: func(tier string, seed int64) []Task {
			var ts []Task
			nq := int64(3) // four free bytes were tried: hours per task, so thorough widens the versions/hints at three bytes instead
			for n := int64(0); n <= nq; n++ {
				for _, ver := range []int64{1, 10, 27} {
					for hint := int64(0); hint < 4; hint++ {
						if n == nq && tier != "thorough" && (hint != 0 || ver != 1) && n > 2 {
							continue
						}
						ts = append(ts, Task{Pkg: "qrcode/decoder", Func: "VerifC06QRStream", Args: ints(n, ver, hint), NoReach: n == 0, Note: "free bytes, version (count-width class), CHARACTER_SET hint (none, UTF-8, ISO-8859-1, Shift_JIS)"})
					}
				}
			}
			nd := int64(2) // three free codewords: millions of paths, outside what finishes
			for n := int64(0); n <= nd; n++ {
				ts = append(ts, Task{Pkg: "datamatrix/decoder", Func: "VerifC06DMStream", Args: ints(n), Note: "free codewords"})
			}
			na := int64(15)
			if tier == "thorough" {
				na = 17
			}
			for n := int64(0); n <= na; n++ {
				ts = append(ts, Task{Pkg: "aztec/decoder", Func: "VerifC06AztecBits", Args: ints(n), Note: "free corrected bits"})
			}
			ne := int64(4)
			if tier == "thorough" {
				ne = 5
			}
			for n := int64(0); n <= ne; n++ {
				ts = append(ts, Task{Pkg: "oned", Func: "VerifC06Ext39", Args: ints(n), Note: "free bytes"})
				ts = append(ts, Task{Pkg: "oned", Func: "VerifC06Ext93", Args: ints(n), Note: "free bytes"})
			}
			for lo := int64(1); lo <= 48; lo += 8 {
				ts = append(ts, Task{Pkg: "qrcode/decoder", Func: "VerifC06QRMatrixDims", Args: ints(lo, lo+7), Note: "every w x h with both dimensions in the range, blank and full"})
				ts = append(ts, Task{Pkg: "datamatrix/decoder", Func: "VerifC06DMMatrixDims", Args: ints(lo, lo+7), Note: "every w x h with both dimensions in the range, blank and full"})
			}
			for _, d := range [][2]int64{{21, 33}, {33, 21}, {25, 37}, {21, 41}, {8, 33}, {45, 21}, {29, 64}} {
				ts = append(ts, Task{Pkg: "qrcode/decoder", Func: "VerifC06QRMatrixDimsOne", Args: d[:], Note: "non-square matrix w x h"})
			}
			// QR version information: one block free, the other unreadable
			for _, v := range []int64{7, 8, 20, 40} {
				for which := int64(0); which <= 1; which++ {
					ts = append(ts, Task{Pkg: "qrcode/decoder", Func: "VerifC06QRVersionBlocks", Args: ints(v, which), Note: "matrix of version v's size; the top-right (0) or bottom-left (1) 18-bit version block free: the version read matches the matrix or is refused"})
				}
			}
			for _, a := range [][3]int64{{0, 0, 0}, {0, 1, 0}, {0, 1, 1}, {0, 0, 1}, {1, 1, 0}, {1, 1, 1}, {1, 0, 1}} {
				ts = append(ts, Task{Pkg: "oned", Func: "VerifC06Code39Short", Args: a[:], Note: "free data characters (0: start directly followed by stop), check-digit flag, extended flag"})
			}
			// 1-D rows cut after every module (all 32 alignments of the row end near the symbol's end)
			for wi := int64(0); wi <= 10; wi++ {
				if wi == 2 {
					continue // UPC-A writer delegates to EAN-13
				}
				free := int64(-1)
				if wi <= 4 || wi == 7 || wi == 8 {
					free = 1 + wi%3
				}
				if tier != "thorough" && (wi == 0 || wi == 4) {
					free = -1
				}
				ts = append(ts, Task{Pkg: "oned", Func: "VerifC06Truncated", Args: ints(wi, free, 3+wi), Note: "writer index, position of a free character (< 0: none), quiet modules in front: DecodeRow on every prefix of the rendered symbol"})
			}
			return ts
		},
		Bounds: func(tier string) map[string]interface{} {
			return map[string]interface{}{
				"qr_version":    "matrices of versions 7, 8, 20, 40 with one 18-bit version block free and the rest white",
				"truncated_1d":  "for ten writer/reader pairs: the rendered template (one free character for digit symbologies, Code 39, Codabar in part) cut after every module, with the row end at every 32-bit alignment for the last 12 cuts: DecodeRow returns result xor error",
				"qr_stream":     "every byte string of length <= 3 (quick: length 3 only at version 1 without hint; thorough: all) x versions {1,10,27} x 4 hint settings: result xor FormatException, no panic",
				"dm_stream":     "every codeword string of length <= 2",
				"aztec_bits":    "every bit sequence of length <= 15 (17 thorough) through HighLevelDecode",
				"extended_1d":   "code39DecodeExtended / code93DecodeExtended on every byte string of length <= 4 (5 thorough)",
				"matrix_decode": "qrcode and datamatrix Decoder.Decode on blank and full matrices of every size 1..48 x 1..48 (same-range blocks) plus non-square spot sizes",
			}
		},
		Exhaustive: func(tier string) bool { return false },
		Outside: []string{
			"image-level readers (finder-pattern search, WhiteRectangleDetector, binarisers) on free images: heuristic search over thousands of pixels is beyond bounded symbolic execution of this code — not decided",
			"1-D DecodeRow on free rows (no harness yet); matrices with free content (the RS decoder's Euclid loop explodes)",
			"panics inside golang.org/x/text (third party; modelled or havoc'd)",
		},
		Stubs:       []string{"x/text codecs: UTF-8 / ISO-8859-1 / US-ASCII models; other codecs on more than two symbolic bytes are havoc (empty output, success or failure both explored)"},
		Assumptions: commonAssumptions,
	}
}
