package main

import "math/rand"

func init() {
	checks["C04"] = &CheckDef{
		Tasks: func(tier string, seed int64) []Task {
			var ts []Task
			pkg := "common/reedsolomon"
			bits := []int64{4, 6, 8, 8, 10, 12}
			r := rand.New(rand.NewSource(seed))
			for f := int64(0); f < 6; f++ {
				size := int64(1) << uint(bits[f])
				step := int64(16)
				if bits[f] >= 10 {
					step = 4
				}
				if tier == "thorough" || bits[f] <= 8 {
					for lo := int64(0); lo < size; lo += step {
						ts = append(ts, Task{Pkg: pkg, Func: "VerifC04Mul", Args: ints(f, lo, lo+step), Timeout: 300, Note: "field(0..5 = GF16,GF64,QR256,DM256,GF1024,GF4096), a in [lo,hi) concrete, b free over the whole field"})
					}
				} else {
					// boundary and seeded values of a
					starts := []int64{0, size - step, size / 2}
					n := 5
					for i := 0; i < n; i++ {
						starts = append(starts, (r.Int63n(size)/step)*step)
					}
					for _, lo := range starts {
						ts = append(ts, Task{Pkg: pkg, Func: "VerifC04Mul", Args: ints(f, lo, lo+step), Timeout: 300, Note: "field, a in [lo,hi) concrete (boundary + seeded), b free over the whole field"})
					}
				}
				cb := int64(6)
				if bits[f] < 6 {
					cb = bits[f]
				}
				for c := int64(0); c < size>>uint(cb); c++ {
					ts = append(ts, Task{Pkg: pkg, Func: "VerifC04InvExpLog", Args: ints(f, c, cb), Timeout: 300, Note: "field, chunk, chunk bits: a free inside the chunk"})
					ts = append(ts, Task{Pkg: pkg, Func: "VerifC04ExpStep", Args: ints(f, c, cb), Timeout: 300, Note: "field, chunk, chunk bits: exponent i free inside the chunk"})
				}
			}
			// encoder: (field, k, r)
			enc := [][3]int64{{0, 1, 1}, {0, 1, 2}, {0, 2, 2}, {0, 2, 5}, {0, 3, 3}, {1, 1, 2}, {1, 2, 3}, {2, 1, 1}, {2, 1, 2}, {2, 2, 2}, {2, 2, 3}, {3, 1, 2}, {3, 2, 3}, {4, 1, 2}, {5, 1, 2}}
			if tier == "thorough" {
				enc = append(enc, [3]int64{0, 4, 6}, [3]int64{0, 3, 5}, [3]int64{1, 3, 3}, [3]int64{2, 3, 2}, [3]int64{3, 3, 2}, [3]int64{4, 2, 2}, [3]int64{5, 2, 2})
			}
			for _, e := range enc {
				ts = append(ts, Task{Pkg: pkg, Func: "VerifC04Encode", Args: e[:], GFMul: e[0] >= 2, Timeout: 300, Note: "field, data symbols (all free), parity symbols"})
			}
			// decoder: (field, k, r, error position mask)
			dec := [][4]int64{{0, 1, 2, 0}, {0, 1, 2, 1}, {0, 1, 2, 2}, {0, 1, 2, 4}, {0, 2, 2, 1}, {0, 2, 2, 8}, {0, 2, 3, 2}, {0, 1, 4, 1}, {1, 1, 2, 1}, {1, 1, 2, 4}, {2, 1, 2, 4}, {2, 1, 2, 0}, {3, 1, 2, 0}}
			if tier == "thorough" {
				dec = append(dec, [4]int64{2, 1, 2, 1}, [4]int64{2, 1, 2, 2}, [4]int64{3, 1, 2, 1}, [4]int64{3, 1, 2, 2}, [4]int64{3, 1, 2, 4}, [4]int64{1, 2, 3, 2}, [4]int64{0, 3, 2, 4})
			}
			for _, d := range dec {
				ts = append(ts, Task{Pkg: pkg, Func: "VerifC04Decode", Args: d[:], GFMul: true, Timeout: 300, Note: "field, data symbols (free), parity symbols, bit mask of corrupted positions (free non-zero magnitudes)"})
			}
			// multi-error decoding on the all-zero word, full length in GF(16), incl. position 0
			dz := [][6]int64{{0, 15, 6, 0, 7, -1}, {0, 15, 6, 14, 3, -1}, {0, 7, 4, 1, 5, -1}, {0, 15, 4, 0, -1, -1}, {3, 12, 7, 11, -1, -1}}
			if tier == "thorough" {
				for p := int64(1); p < 15; p++ {
					dz = append(dz, [6]int64{0, 15, 6, 0, p, -1})
				}
				dz = append(dz, [6]int64{0, 15, 6, 0, 7, 14}, [6]int64{1, 63, 4, 0, 62, -1}, [6]int64{2, 26, 10, 0, -1, -1}, [6]int64{2, 26, 10, 0, 25, -1})
			}
			for _, d := range dz {
				ts = append(ts, Task{Pkg: pkg, Func: "VerifC04DecodeZero", Args: d[:], GFMul: true, Timeout: 600, Note: "field, word length, parity symbols, up to three error positions (-1 unused); all-zero code word, free non-zero magnitudes"})
			}
			return ts
		},
		Bounds: func(tier string) map[string]interface{} {
			b := map[string]interface{}{
				"rs_decode_zero_word":    "all-zero code word with free non-zero error magnitudes: two errors in the full-length GF(16) code (n=15, r=6) including position 0; single errors in GF(256) QR n=26 r=10 and DM n=12 r=7 (thorough: every position pair with position 0, three errors, GF(64) full length)",
				"fields_multiply":        "GF(16), GF(64), both GF(256): every a (concrete, split) x every b (symbolic) = all pairs; GF(1024), GF(4096): 8 blocks of 4 values of a (boundary + seeded) x every b",
				"fields_inverse_exp_log": "all six fields, every element (symbolic inside chunks of 64): a*inv(a)=1 by the reference product, exp(log a)=a, log(exp i)=i, exp[i+1]=x*exp[i]",
				"rs_encode":              "free data: GF(16) k<=3,r<=5; GF(64) k<=2,r<=3; GF(256) QR and DM k<=2,r<=3; GF(1024)/GF(4096) k=1,r=2",
				"rs_decode":              "free data and free non-zero error magnitudes: single errors with r=2..4 in GF(16), r=2 in GF(64), one position in GF(256)/QR; error-free words in GF(16), GF(256) QR and DM (more positions in thorough)",
			}
			if tier == "thorough" {
				b["fields_multiply"] = "all six fields: every a (concrete, split) x every b (symbolic) = all pairs"
			}
			return b
		},
		Exhaustive: func(tier string) bool { return false },
		Outside: []string{
			"Reed-Solomon at real block sizes with free data: polynomial normalisation forks on every leading coefficient (2^k paths) and the XOR-linear syndrome identities over more than ~16 free bits do not finish in z3/cvc5 (probed)",
			"two or more errors per block: the Euclid/Chien/Forney path with nested symbolic table lookups did not finish in 120 s even in GF(16) with r=4 (probed); not claimed",
		},
		Stubs:       []string{"in the Reed-Solomon tasks over GF(256)+ GenericGF.Multiply is summarised as the polynomial product modulo the field polynomial; the summary is exactly what VerifC04Mul proves of the table implementation"},
		Assumptions: append([]string{"reference product refMul (shift/xor, no tables) defines multiplication in GF(2)[x]/(p)"}, commonAssumptions...),
	}
}
