package main

func dmSymbolStubs() map[string]string {
	return map[string]string{
		"datamatrix/encoder.createECCBlock":                "datamatrix/encoder.verifStubECC",
		"datamatrix/decoder.(*Decoder).correctErrors":      "datamatrix/decoder.verifCheckPairing",
		"datamatrix/decoder.DecodedBitStreamParser_decode": "datamatrix/decoder.verifRawResult",
	}
}

func dmSizes(tier string) []int64 {
	if tier == "thorough" {
		var all []int64
		for i := int64(0); i < 30; i++ {
			all = append(all, i)
		}
		return all
	}
	// every corner-case residue of the mapping matrix, both families, multi-region and the 144 special
	return []int64{0, 1, 2, 3, 5, 8, 9, 14, 15, 20, 23, 24, 25, 26, 29}
}

func init() {
	checks["C08"] = &CheckDef{
		Tasks: func(tier string, seed int64) []Task {
			var ts []Task
			enc, dec, dm := "datamatrix/encoder", "datamatrix/decoder", "datamatrix"
			for i := int64(0); i < 16; i++ {
				ts = append(ts, Task{Pkg: enc, Func: "VerifC08Factors", Args: ints(i), Note: "index into the 16 parity lengths: stored factors == coefficients of prod (x - 2^i) over GF(256)/0x12D (ground)"})
			}
			for i := int64(0); i < 30; i++ {
				ts = append(ts, Task{Pkg: enc, Func: "VerifC08Tables", Args: ints(i), Note: "size index: encoder symbol entry == standard's attribute row"})
				ts = append(ts, Task{Pkg: dec, Func: "VerifC08DecoderVersion", Args: ints(i), Note: "size index: decoder version entry == standard's attribute row"})
				ts = append(ts, Task{Pkg: enc, Func: "VerifC08Interleave", Args: ints(i), Redirect: map[string]string{"datamatrix/encoder.createECCBlock": "datamatrix/encoder.verifStubECC"}, Note: "size index: all data codewords free; ECC of block b at the standard's interleaved positions"})
				ts = append(ts, Task{Pkg: dec, Func: "VerifC02Blocks", Args: ints(i), Note: "size index: all raw codewords free; de-interleave == standard's assignment"})
			}
			ts = append(ts, Task{Pkg: enc, Func: "VerifC08Randomisers", Note: "position 1..1558 and byte free"})
			for _, i := range dmSizes(tier) {
				ts = append(ts, Task{Pkg: dm, Func: "VerifC08Placement", Args: ints(i), Note: "size index: all codeword bits free; Place() == Annex F reference"})
				ts = append(ts, Task{Pkg: dm, Func: "VerifC08LowLevel", Args: ints(i), Note: "size index: all codeword bits free; full symbol == reference geometry"})
			}
			// ECC: one free byte at a few positions of every (data, ecc) block shape
			shapes := [][2]int64{{3, 5}, {5, 7}, {8, 10}, {10, 11}, {12, 12}, {16, 14}, {18, 14}, {22, 18}, {30, 20}, {32, 24}, {36, 24}, {44, 28}, {49, 28}, {62, 36}, {86, 42}, {114, 48}, {144, 56}, {174, 68}, {102, 42}, {140, 56}, {92, 36}, {175, 68}, {163, 62}, {156, 62}, {155, 62}}
			for _, sh := range shapes {
				// the free byte's influence passes through (k - pos) LFSR steps of nested table
				// look-ups: cheap near the end of the block, expensive at the start
				pos := []int64{sh[0] - 1, sh[0] - 2}
				if sh[0] <= 32 {
					pos = append(pos, 0)
				}
				if tier == "thorough" {
					pos = append(pos, sh[0]/2)
					if sh[0] > 32 && sh[0] <= 62 {
						pos = append(pos, 0)
					}
				}
				for _, p := range pos {
					ts = append(ts, Task{Pkg: enc, Func: "VerifC08ECCUnit", Args: ints(sh[0], sh[1], p), Timeout: 300, Note: "data codewords, ECC codewords, position of the one free byte (others zero)"})
				}
			}
			if tier == "thorough" {
				ts = append(ts, Task{Pkg: enc, Func: "VerifC08ECCFree", Args: ints(1, 5), Timeout: 600}, Task{Pkg: enc, Func: "VerifC08ECCFree", Args: ints(2, 5), Timeout: 600}, Task{Pkg: enc, Func: "VerifC08ECCFree", Args: ints(2, 7), Timeout: 600})
			}
			return ts
		},
		Bounds: func(tier string) map[string]interface{} {
			b := map[string]interface{}{
				"tables":      "all 30 sizes: encoder entry, decoder entry and the standard's attribute row (typed independently, cross-checked by mapping-matrix area == 8 x codewords)",
				"factors":     "all 16 parity lengths",
				"ecc":         "createECCBlock == reference remainder for one free byte (others zero) at the last two positions of all 25 (data, ecc) block shapes and at the first position for blocks of <= 32 data codewords (<= 62 and the middle position in thorough)",
				"interleave":  "all 30 sizes, every data codeword free (ECC generation stubbed by a rotation so positions are observable); decoder de-interleave for free raw codewords",
				"randomisers": "position 1..1558 and byte value jointly free",
			}
			if tier == "thorough" {
				b["placement"] = "all 30 sizes, every codeword bit free: Place() and the drawn symbol"
			} else {
				b["placement"] = "15 sizes covering both families, every corner-case residue, multi-region symbols and 144x144; every codeword bit free"
			}
			return b
		},
		Exhaustive:  func(tier string) bool { return false },
		Outside:     []string{"createECCBlock with more than one free data byte per block (two free bytes with 5 ECC codewords: inconclusive at 30 s; tried again in thorough)", "high-level encodation (C02)"},
		Stubs:       []string{"createECCBlock -> rotation stub in the interleave tasks"},
		Assumptions: append([]string{"reference typed from ISO/IEC 16022 (table 7, Annex F placement program, finder/clock geometry, 253/255-state algorithms); a disagreement on the unchanged tree is triaged by hand (two reference errors — right clock track parity, continuous ECC round robin for 144x144 — were corrected this way, the second one exposing a genuine encoder defect)"}, commonAssumptions...),
	}
}
