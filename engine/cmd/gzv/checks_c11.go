package main

func init() {
	checks["C11"] = &CheckDef{
		Tasks: func(tier string, seed int64) []Task {
			var ts []Task
			thorough := tier == "thorough"
			for table := int64(0); table <= 4; table++ {
				ns := []int64{1, 2}
				if thorough || table == 4 {
					ns = append(ns, 3)
				}
				for _, n := range ns {
					ts = append(ts, Task{Pkg: "aztec/decoder", Func: "VerifC11Codes", Args: ints(table, n), Note: "table (0 upper, 1 lower, 2 mixed, 3 punct, 4 digit), n free data codes after the latch sequence"})
				}
				for _, n := range []int64{1, 3, 31, 32, 40} {
					if !thorough && n == 40 {
						continue
					}
					ts = append(ts, Task{Pkg: "aztec/decoder", Func: "VerifC11Binary", Args: ints(table, n), Note: "binary shift of n free bytes (< 0x80) from the table, short (<= 31) and long length forms, then a free character of the invoking table"})
				}
			}
			// bit un-stuffing (correctBits) per codeword size, Reed-Solomon stubbed
			rsStub := map[string]string{"common/reedsolomon.(*ReedSolomonDecoder).Decode": "aztec/decoder.verifNoRS"}
			us := [][4]int64{{1, 1, 1, 0}, {1, 2, 2, 0}, {2, 3, 2, 4}, {3, 2, 1, 0}, {8, 3, 1, 3}, {9, 2, 2, 0}, {22, 3, 1, 7}, {23, 2, 1, 5}, {32, 3, 2, 0}}
			if thorough {
				us = append(us, [4]int64{1, 4, 3, 2}, [4]int64{5, 4, 2, 1}, [4]int64{12, 4, 2, 9}, [4]int64{30, 4, 1, 11})
			}
			for _, a := range us {
				ts = append(ts, Task{Pkg: "aztec/decoder", Func: "VerifC11Unstuff", Args: a[:], Redirect: rsStub, Note: "layers (codeword size 6/8/10/12), free data codewords, parity codewords, leading pad bits: un-stuffing and rejection of all-0 / all-1 codewords"})
			}
			for k := int64(0); k <= 6; k++ {
				ts = append(ts, Task{Pkg: "aztec/decoder", Func: "VerifC11Shift", Args: ints(k), Note: "shift/latch scripts: P/S and U/S from upper, lower, digit, mixed; chained latches; every data code free"})
			}
			return ts
		},
		Bounds: func(tier string) map[string]interface{} {
			return map[string]interface{}{
				"layer":    "aztec/decoder.Decoder.HighLevelDecode only: bit sequences built in the harness from the code tables of ISO/IEC 24778 (typed independently), 1..3 free data codes per table, seven shift/latch scripts with every data code free, binary shifts of 1, 3, 31, 32 (40) free bytes below 0x80",
				"deciding": "codes are made concrete per path by solver-enumerated forks (each path one code combination); binary-shift bytes stay symbolic",
			}
		},
		Exhaustive:  func(tier string) bool { return false },
		Outside:     []string{"the whole symbol layer: bull's-eye detection, orientation, mode message, Reed-Solomon correction in GF(16)/GF(64)/GF(256)/GF(1024)/GF(4096), layer spiral read-out (extractBits) — no reference Aztec symbol constructor was built, so 'symbols of every size' is NOT covered", "binary-shift bytes >= 0x80 and ECI switches (FLG(n)) inside a conforming stream (C06 covers their totality)", "texts longer than three codes per table"},
		Stubs:       []string{"(*reedsolomon.ReedSolomonDecoder).Decode -> no-op in the un-stuffing tasks"},
		Assumptions: commonAssumptions,
	}
}
