package main

func init() {
	checks["C05"] = &CheckDef{
		Tasks: func(tier string, seed int64) []Task {
			var ts []Task
			to := 120
			if tier == "thorough" {
				to = 600
			}
			for d := int64(0); d < 32; d++ {
				ts = append(ts, Task{Pkg: "qrcode/decoder", Func: "VerifC05Format", Args: ints(d), Fresh: true, Timeout: to, Note: "format data (level bits<<3 | mask); two copies, each with a free error mask of <= 3 of 15 bits"})
				ts = append(ts, Task{Pkg: "qrcode/decoder", Func: "VerifC05FormatTable", Args: ints(d)})
			}
			// the real correctErrors (real Reed-Solomon decoder over GF(256)) with one corrupted codeword of
			// free magnitude at every position of a 1-L block, and at the boundaries of a 1-H block
			for pos := int64(0); pos < 26; pos++ {
				ts = append(ts, Task{Pkg: "qrcode/decoder", Func: "VerifC05Correct", Args: ints(19, 7, pos, -1), Note: "data codewords, parity codewords, corrupted position (free non-zero magnitude): every data codeword restored"})
			}
			for _, pos := range []int64{0, 8, 9, 25} {
				ts = append(ts, Task{Pkg: "qrcode/decoder", Func: "VerifC05Correct", Args: ints(9, 17, pos, -1)})
			}
			for v := int64(7); v <= 40; v++ {
				ts = append(ts, Task{Pkg: "qrcode/decoder", Func: "VerifC05Version", Args: ints(v), Fresh: true, Timeout: to, Note: "version; free error mask of <= 3 of 18 bits"})
			}
			ts = append(ts, c05BlockTasks(tier)...)
			return ts
		},
		Bounds: func(tier string) map[string]interface{} {
			return map[string]interface{}{
				"format":  "all 32 format words; both copies with every error mask of weight <= 3 (jointly free)",
				"version": "all 34 version words (7..40); every error mask of weight <= 3",
				"blocks":  "see coverage.samples: de-interleave position maps (shared with C01/C02 block layer) where built",
			}
		},
		Exhaustive: func(tier string) bool { return false },
		Outside: []string{
			"end-to-end decoding of symbols with up to floor(ec/2) corrupted codewords per block at real block sizes: needs the Reed-Solomon decoder on symbolic words beyond the shapes C04 reaches (single errors, tiny blocks) — not decided",
			"that format/version bits are read from the right modules is part of C01/C07 (matrix layer)",
		},
		Stubs:       []string{"math/bits.OnesCount -> sum of bits"},
		Assumptions: commonAssumptions,
	}
}

// c05BlockTasks is filled in by the block-layer harnesses when they exist.
var c05BlockTasks = func(tier string) []Task { return nil }
