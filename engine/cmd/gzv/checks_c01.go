package main

import "math/rand"

// qrConfigs: (version, level, mask) triples. Quick: all 32 (level, mask) pairs for ten versions
// around every structural boundary, plus 8 seeded pairs each for versions 32 and 40; thorough: all 1280.
func qrConfigs(tier string, seed int64) [][3]int64 {
	var out [][3]int64
	if tier == "thorough" {
		for v := int64(1); v <= 40; v++ {
			for l := int64(0); l < 4; l++ {
				for m := int64(0); m < 8; m++ {
					out = append(out, [3]int64{v, l, m})
				}
			}
		}
		return out
	}
	// small versions: every (level, mask); mid versions: every mask once with rotating levels;
	// large versions: a few seeded configurations (cost grows with the module count)
	for _, v := range []int64{1, 2, 7} {
		for l := int64(0); l < 4; l++ {
			for m := int64(0); m < 8; m++ {
				out = append(out, [3]int64{v, l, m})
			}
		}
	}
	for _, v := range []int64{6, 9, 10, 14} {
		for m := int64(0); m < 8; m++ {
			out = append(out, [3]int64{v, (m + v) % 4, m})
		}
	}
	r := rand.New(rand.NewSource(seed))
	for _, v := range []int64{21, 26, 27} {
		for k := int64(0); k < 4; k++ {
			out = append(out, [3]int64{v, k, int64(r.Intn(8))})
		}
	}
	for _, v := range []int64{32, 40} {
		for k := 0; k < 2; k++ {
			out = append(out, [3]int64{v, int64(r.Intn(4)), int64(r.Intn(8))})
		}
	}
	return out
}

const qrRedirect = "qrcode/encoder.generateECBytes"

func qrStubs() map[string]string {
	return map[string]string{
		"qrcode/encoder.generateECBytes":          "qrcode/encoder.verifStubEC",
		"qrcode/decoder.(*Decoder).correctErrors": "qrcode/decoder.verifNoCorrect",
	}
}

func qrBlockTasks(tier string) []Task {
	var ts []Task
	for v := int64(1); v <= 40; v++ {
		if tier != "thorough" && v > 10 && v != 14 && v != 21 && v != 26 && v != 27 && v != 32 && v != 40 {
			continue
		}
		for l := int64(0); l < 4; l++ {
			ts = append(ts, Task{Pkg: "qrcode/encoder", Func: "VerifC01Blocks", Args: ints(v, l), Redirect: map[string]string{"qrcode/encoder.generateECBytes": "qrcode/encoder.verifStubEC"},
				Note: "version, level: all data bytes free; interleave == standard order; de-interleave restores every block (data and parity positions)"})
		}
	}
	return ts
}

func init() {
	c05BlockTasks = func(tier string) []Task {
		// the position map codeword -> (block, index) is a bijection: shared with C01's block layer
		var ts []Task
		for _, t := range qrBlockTasks(tier) {
			if tier == "thorough" || t.Args[0] == 1 || t.Args[0] == 5 || t.Args[0] == 10 || t.Args[0] == 27 || t.Args[0] == 40 {
				ts = append(ts, t)
			}
		}
		return ts
	}
	checks["C01"] = &CheckDef{
		Tasks: func(tier string, seed int64) []Task {
			var ts []Task
			for _, c := range qrConfigs(tier, seed) {
				ts = append(ts, Task{Pkg: "qrcode", Func: "VerifC01Matrix", Args: c[:], Note: "version, level, mask: every bit of the final codeword stream free; placed, rendered, parsed back"})
			}
			ts = append(ts, qrBlockTasks(tier)...)
			// end to end: kind(0 digits,1 alnum,2 ascii bytes,3 utf-8), n chars, level, mask, forced version (0 = choose)
			e2e := [][5]int64{
				{0, 1, 0, 0, 0}, {0, 3, 1, 1, 0}, {0, 34, 1, 1, 1}, {0, 27, 2, 6, 1}, {0, 7, 2, 2, 0}, {0, 12, 3, 3, 0}, {0, 17, 3, 4, 1}, {0, 41, 0, 5, 1}, {0, 42, 0, 6, 0}, {0, 8, 1, 7, 10}, {0, 6, 2, 0, 27},
				{1, 1, 0, 1, 0}, {1, 2, 1, 2, 0}, {1, 3, 2, 3, 0}, {1, 4, 3, 4, 0}, {1, 3, 0, 5, 10}, {1, 3, 1, 6, 27},
				{2, 1, 0, 2, 0}, {2, 2, 1, 3, 0}, {2, 4, 2, 4, 0}, {2, 5, 3, 5, 0}, {2, 5, 0, 3, 10}, {2, 3, 1, 0, 27},
				{3, 2, 0, 6, 0}, {3, 3, 1, 7, 0}, {3, 4, 3, 0, 0},
			}
			if tier == "thorough" {
				e2e = append(e2e, [5]int64{0, 20, 0, 1, 0}, [5]int64{1, 6, 1, 2, 0}, [5]int64{2, 6, 2, 7, 0}, [5]int64{2, 7, 0, 4, 0}, [5]int64{3, 5, 2, 3, 0}, [5]int64{1, 5, 3, 5, 2}, [5]int64{0, 30, 2, 6, 2})
				for m := int64(0); m < 8; m++ {
					e2e = append(e2e, [5]int64{2, 3, m % 4, m, 1}, [5]int64{0, 9, (m + 1) % 4, m, 2})
				}
			}
			for _, e := range e2e {
				ts = append(ts, Task{Pkg: "qrcode", Func: "VerifC01EndToEnd", Args: e[:], Redirect: qrStubs(), Timeout: 300,
					Note: "content class (digits, alphanumeric, ASCII bytes, UTF-8), free characters, level, forced mask, forced version (0 = recommended): real Encoder_encode -> render -> real Decoder.Decode"})
			}
			return ts
		},
		Bounds: func(tier string) map[string]interface{} {
			b := map[string]interface{}{
				"matrix_layer": "per (version, level, mask): all bits of the codeword stream free (up to 29648 at version 40) — quick: 144 configurations (versions 1, 2, 7 x all 32; 6, 9, 10, 14 x 8 masks; 21, 26, 27 x 4; 32, 40 x 2 seeded), thorough: all 1280",
				"block_layer":  "every data byte free (up to 2956): quick 16 versions (1-10, 14, 21, 26, 27, 32, 40) x 4 levels, thorough all 160 (version, level)",
				"end_to_end":   "real Encoder_encode and Decoder.Decode with 1..42 free characters (digits up to the version-1 capacity boundary 41/42, 17 at 1-H, and the exact byte-aligned fills 34 at 1-M and 27 at 1-Q, alphanumeric <= 4, bytes <= 5, UTF-8 <= 4), forced masks 0..7, versions 1, 2, 10, 27 or recommended",
			}
			return b
		},
		Exhaustive: func(tier string) bool { return false },
		Outside: []string{
			"Reed-Solomon parity generation and correction inside the end-to-end and block tasks (stubbed; bounded separately in C04)",
			"free contents longer than the stated lengths; Kanji mode and non-UTF-8 character-set hints (C15); mask selection by penalty score (masks are forced; every mask is covered)",
			"the rendered image read back in pure-barcode mode with quiet zone and scaling (extractPureBits) — no harness yet",
		},
		Stubs: []string{
			"generateECBytes -> verifStubEC (a cheap function of the block's data, so parity positions remain observable)",
			"(*Decoder).correctErrors -> no-op in the end-to-end tasks",
			"x/text UTF-8 codec -> validity-preserving model (zzverif.ModelEncodeUTF8 / ModelDecodeUTF8)",
		},
		Assumptions: commonAssumptions,
	}
	checks["C07"] = &CheckDef{
		Tasks: func(tier string, seed int64) []Task {
			var ts []Task
			for _, c := range qrConfigs(tier, seed) {
				ts = append(ts, Task{Pkg: "qrcode", Func: "VerifC07Matrix", Args: c[:], Note: "version, level, mask: encoder matrix == independent construction from ISO/IEC 18004 for a free codeword stream"})
			}
			for m := int64(0); m < 8; m++ {
				ts = append(ts, Task{Pkg: "qrcode", Func: "VerifC07Masks", Args: ints(m), Note: "mask; module coordinates free in 0..176"})
				for _, d := range []int64{21, 25, 33, 45} {
					ts = append(ts, Task{Pkg: "qrcode", Func: "VerifC07DecoderMask", Args: ints(m, d), Note: "mask, dimension; all modules free"})
				}
			}
			for v := int64(1); v <= 40; v++ {
				ts = append(ts, Task{Pkg: "qrcode", Func: "VerifC07Tables", Args: ints(v), Note: "version: total codewords, alignment centres, block structure for 4 levels"})
			}
			ts = append(ts, qrBlockTasks(tier)...)
			for d := int64(0); d < 32; d++ {
				ts = append(ts, Task{Pkg: "qrcode/decoder", Func: "VerifC05FormatTable", Args: ints(d), Note: "format word == BCH recomputation"})
			}
			return ts
		},
		Bounds: func(tier string) map[string]interface{} {
			return map[string]interface{}{
				"matrix": "module-by-module equality with the reference construction for every free codeword stream — quick: 144 configurations (as C01), thorough: all 1280",
				"tables": "all 40 versions x 4 levels: total codewords (raw module count / 8), alignment centres (spacing rule), block count, EC codewords per block, short/long split; all 32 format words; version words are checked in C05",
				"masks":  "encoder predicate for free coordinates 0..176; decoder unmasking on free 21/25/33/45-module matrices",
				"blocks": "interleaved codeword order == standard's order, all data bytes free: quick 64 (version, level) pairs, thorough all 160",
			}
		},
		Exhaustive: func(tier string) bool { return false },
		Outside: []string{
			"the Reed-Solomon parity bytes themselves at real block sizes (only C04's small shapes are decided); generator polynomials are not compared here",
			"payload bits -> codeword stream (segment encoding, padding) is C01's end-to-end part",
		},
		Stubs:       []string{"generateECBytes -> verifStubEC in the block-order tasks"},
		Assumptions: append([]string{"reference construction typed from ISO/IEC 18004 (function patterns, format/version placement, zig-zag order, mask formulas) and cross-checked by identities; a reference typo would surface as a violation and be triaged by hand"}, commonAssumptions...),
	}
}
