package main

func init() {
	checks["C20"] = &CheckDef{
		Tasks: func(tier string, seed int64) []Task {
			var ts []Task
			fp := []string{"cvc5"}
			if tier == "thorough" {
				fp = []string{"cvc5", "z3"}
			}
			maxN := int64(10)
			if tier == "thorough" {
				maxN = 14
			}
			for n := int64(0); n <= maxN; n++ {
				for _, k := range []int64{1, 2, 3, 4, 6} {
					if tier != "thorough" && n > 8 && k > 3 {
						continue
					}
					ts = append(ts, Task{Pkg: "oned", Func: "VerifC20Record", Args: ints(n, k), Note: "row pixels (all free), counters; every start 0..n+1"})
					if n >= 1 && k <= 4 && (n <= 9 || tier == "thorough") {
						ts = append(ts, Task{Pkg: "oned", Func: "VerifC20RecordReverse", Args: ints(n, k), Note: "row pixels (all free), counters; every start"})
					}
				}
			}
			// pattern index -> (elements, variance num/den used by the symbology)
			type pat struct {
				idx, n   int64
				num, den int64
			}
			pats := []pat{{0, 3, 7, 10}, {1, 4, 7, 10}, {2, 4, 7, 10}, {3, 4, 7, 10}, {4, 5, 7, 10}, {5, 5, 1, 2}, {6, 5, 1, 2}, {7, 6, 7, 10}, {8, 6, 7, 10}, {9, 4, 9, 20}, {10, 6, 7, 10}, {11, 4, 1, 2}}
			for _, p := range pats {
				bitsPer := int64(2)
				switch {
				case p.n == 3:
					bitsPer = 3
				case p.n == 4:
					bitsPer = 3
				}
				if tier == "thorough" && p.n <= 4 {
					bitsPer++
				}
				to := 120
				if tier == "thorough" {
					to = 900
				}
				ts = append(ts, Task{Pkg: "oned", Func: "VerifC20Inf", Args: ints(p.idx, bitsPer, p.num, p.den), Backends: fp, Timeout: to, Note: "pattern, bits per counter, variance num/den"})
				ts = append(ts, Task{Pkg: "oned", Func: "VerifC20Zero", Args: ints(p.idx, 12, p.num, p.den), Backends: fp, Timeout: to, Note: "pattern, max multiple, variance num/den"})
				if tier == "thorough" || p.n <= 4 || p.idx == 5 || p.idx == 7 {
					ts = append(ts, Task{Pkg: "oned", Func: "VerifC20Formula", Args: ints(p.idx, bitsPer, p.num, p.den), Backends: fp, Timeout: to, Note: "pattern, bits per counter, variance num/den"})
					ts = append(ts, Task{Pkg: "oned", Func: "VerifC20Scale", Args: ints(p.idx, bitsPer, 2, p.num, p.den), Backends: fp, Timeout: to, Note: "pattern, bits per counter, factor, variance num/den"})
				}
				if tier == "thorough" {
					ts = append(ts, Task{Pkg: "oned", Func: "VerifC20Scale", Args: ints(p.idx, bitsPer, 3, p.num, p.den), Backends: fp, Timeout: to})
				}
			}
			// exact threshold behaviour where float64 is exact: P a power of two, limit 1/2 (ITF start {1,1,1,1})
			bb := int64(3)
			if tier == "thorough" {
				bb = 4
			}
			ts = append(ts, Task{Pkg: "oned", Func: "VerifC20Boundary", Args: ints(11, bb), Backends: fp, Timeout: 300, Note: "pattern {1,1,1,1}, bits per counter; limit 0.5: exact at the threshold"})
			return ts
		},
		Bounds: func(tier string) map[string]interface{} {
			if tier == "thorough" {
				return map[string]interface{}{"record": "rows of 0..14 free pixels, every start, 1/2/3/4/6 counters", "variance": "12 patterns of the symbology tables; counters 0..15 (3-4 elements), 0..3 (5-6); float64 bit-precise", "scale_factors": "2, 3"}
			}
			return map[string]interface{}{"record": "rows of 0..10 free pixels, every start, 1/2/3/4/6 counters", "variance": "12 patterns of the symbology tables; counters 0..15 (3 elements), 0..7 (4), 0..3 (5-6); float64 bit-precise", "scale_factors": "2"}
		},
		Exhaustive:  func(tier string) bool { return false },
		Outside:     []string{"rows longer than 14 pixels; counters beyond the stated ranges; scores exactly on the individual-variance threshold (the oracle uses a ±1 integer margin so that rounding can never raise a false alarm)", "the 9-element Code 39 patterns (Code 39 does not use this function)"},
		Stubs:       []string{"math.Inf / math.IsInf -> IEEE predicates", "int->float64 conversion narrowed by known-zero bits (exact)"},
		Assumptions: append([]string{"floating point: SMT-LIB FloatingPoint 11 53 with RNE, as Go's float64"}, commonAssumptions...),
	}
}
