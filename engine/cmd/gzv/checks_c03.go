package main

// template lengths per writer index (harness/oned/zz_verif_c03.go verifTemplate)
var c03Len = []int64{12, 7, 11, 7, 7, 9, 10, 8, 8, 8, 8}

func c03Margin(wi int64) int64 {
	if wi == 3 {
		return 14 // UPC-E at the default margin is a recorded finding
	}
	return -1
}

func init() {
	checks["C03"] = &CheckDef{
		Tasks: func(tier string, seed int64) []Task {
			var ts []Task
			thorough := tier == "thorough"
			names := "writer (0 EAN-13, 1 EAN-8, 2 UPC-A, 3 UPC-E, 4 Code 39, 5 Code 93, 6 Code 128, 7 ITF, 8 Codabar, 9 Code 39 full ASCII, 10 Code 128 with control characters)"
			// concrete samples at several sizes and margins
			for wi := int64(0); wi <= 8; wi++ {
				for _, s := range [][3]int64{{0, 0, -1}, {0, 0, 25}, {400, 50, -1}, {333, 7, 31}} {
					m := s[2]
					if wi == 3 && m < 14 {
						m = 14
					}
					ts = append(ts, Task{Pkg: "oned", Func: "VerifC03Concrete", Args: ints(wi, s[0], s[1], m), Note: names + ", width, height, margin (<0: default): concrete sample content"})
				}
			}
			// free characters
			for wi := int64(0); wi <= 10; wi++ {
				n := c03Len[wi]
				digits := wi <= 3 || wi == 7
				var pairs [][2]int64
				switch {
				case digits && !thorough:
					pairs = [][2]int64{{0, n - 1}, {1, n / 2}, {n/2 + 1, n - 2}}
				case digits:
					for i := int64(0); i < n; i++ {
						for j := i + 1; j < n; j++ {
							pairs = append(pairs, [2]int64{i, j})
						}
					}
				case wi == 4 || wi == 8:
					pairs = [][2]int64{{0, n - 1}, {1, 3}}
					if thorough {
						pairs = append(pairs, [2]int64{2, 5}, [2]int64{0, 4}, [2]int64{3, n - 1})
					}
					if wi == 4 {
						for i := int64(0); i < n; i++ {
							pairs = append(pairs, [2]int64{i, -1})
						}
					}
				default: // full ASCII alphabets: one free character per task; pairs only in the thorough tier
					for i := int64(0); i < n; i++ {
						pairs = append(pairs, [2]int64{i, -1})
					}
					if thorough {
						pairs = append(pairs, [2]int64{0, 1}, [2]int64{n - 2, n - 1})
					}
				}
				for k, p := range pairs {
					w, h := int64(0), int64(0)
					if k%3 == 1 {
						w, h = 2*(12*n+40)+7, 20 // an integer upscale with slack
					}
					ts = append(ts, Task{Pkg: "oned", Func: "VerifC03Free", Args: ints(wi, p[0], p[1], c03Margin(wi), w, h), Timeout: 900,
						Note: names + ", positions of the free characters (second < 0: one), margin, width, height: write -> image -> binariser -> matching reader"})
				}
			}
			for wi := int64(0); wi <= 3; wi++ {
				n := c03Len[wi]
				for mode := int64(0); mode <= 1; mode++ {
					ts = append(ts, Task{Pkg: "oned", Func: "VerifC03Multi", Args: ints(wi, 0, n-1-mode, c03Margin(wi), mode), Timeout: 900, Note: "multi-format UPC/EAN reader; mode 0: only the written format requested, 1: all four"})
					if thorough {
						ts = append(ts, Task{Pkg: "oned", Func: "VerifC03Multi", Args: ints(wi, 1, n/2, c03Margin(wi), mode), Timeout: 900})
					}
				}
			}
			// rejections
			for wi := int64(0); wi <= 7; wi++ {
				n := c03Len[wi]
				for _, i := range []int64{0, n / 2, n - 1} {
					ts = append(ts, Task{Pkg: "oned", Func: "VerifC03Reject", Args: ints(wi, i, 0), Note: "one byte of the content free over 0..255: accepted iff in the alphabet"})
				}
			}
			for _, wi := range []int64{0, 1, 2, 3, 7} {
				for l := int64(1); l <= 15; l++ {
					ts = append(ts, Task{Pkg: "oned", Func: "VerifC03Reject", Args: ints(wi, 0, l), Note: "digit content of the given length: accepted iff the length is allowed"})
				}
			}
			return ts
		},
		Bounds: func(tier string) map[string]interface{} {
			return map[string]interface{}{
				"content":   "one template per symbology (EAN-13 590123412345, EAN-8 9638507, UPC-A 03600029145, UPC-E 0123456, Code 39 'A1-Z. 9', Code 93 'a~Code 93', Code 128 'Ab1x23456z', ITF 12345678, Codabar A1234-5B, Code 39 full ASCII 'a1-Z. 9~', Code 128 in code set A context '\\nAB\\x02CD12') in which one or two characters are free over the symbology's whole alphabet (digits; 43 Code 39 characters; ASCII 0..127; 16 Codabar data characters and 4 start/stop letters); quick: 3 position pairs for digit symbologies, every single position for the ASCII ones; thorough: every pair of positions for digit symbologies, selected pairs for the others",
				"rendering": "default size and margin, one integer upscale with slack and height 20, explicit margins 25 and 31; UPC-E only with MARGIN >= 14",
				"reading":   "gozxing.NewBinaryBitmapFromImage (hybrid binariser) -> matching reader's Decode without hints; UPC/EAN also through NewMultiFormatUPCEANReader with POSSIBLE_FORMATS = the written format or all four",
				"rejection": "one free byte (0..255) at 3 positions per symbology; digit contents of length 1..15",
			}
		},
		Exhaustive:  func(tier string) bool { return false },
		Outside:     []string{"contents that differ from the templates in more than two characters, and other lengths (ITF > 8 digits, Code 128 digit runs that trigger code set C beyond the template's, forced code sets)", "the exhaustive 2*10^6 UPC-E / 10^7 EAN-8 enumeration named in the property (enumeration of concrete runs is not this technique; the per-digit structure is covered by the two-free-digit tasks)", "requested sizes other than the four stated", "the multi-format reader without POSSIBLE_FORMATS (reports UPC-A as EAN-13 with a leading zero; pinned by the repository's own test)", "Codabar alternative start/stop letters T N * E"},
		Assumptions: commonAssumptions,
	}
}
