package main

func init() {
	checks["C19"] = &CheckDef{
		Tasks: func(tier string, seed int64) []Task {
			var ts []Task
			fp := []string{"cvc5", "z3"}
			sizes := [][2]int64{{1, 1}, {7, 5}, {64, 64}}
			if tier == "thorough" {
				sizes = append(sizes, [2]int64{2, 9}, [2]int64{33, 1}, [2]int64{1, 40}, [2]int64{177, 177})
			}
			for _, s := range sizes {
				for n := int64(1); n <= 3; n++ {
					if tier != "thorough" && n == 3 && s[0] != 7 {
						continue
					}
					ts = append(ts, Task{Pkg: "common", Func: "VerifC19Nudge", Args: ints(s[0], s[1], n), Backends: fp, Timeout: 120, Note: "image width,height, number of points; all coordinates free float64 with |v|<2^20"})
				}
			}
			w, h := int64(6), int64(5)
			lim := int64(3)
			if tier == "thorough" {
				lim = 5
			}
			for tx := -lim; tx <= lim+2; tx++ {
				for ty := -lim; ty <= lim+2; ty++ {
					ts = append(ts, Task{Pkg: "common", Func: "VerifC19SampleTranslate", Args: ints(w, h, 4, 3, tx, ty), Note: "image w,h (all pixels free), grid dimX,dimY, translation tx,ty"})
					for dir := int64(0); dir < 2; dir++ {
						ts = append(ts, Task{Pkg: "common", Func: "VerifC19SampleRotate", Args: ints(w, h, 3, tx, ty, dir), Note: "image w,h (all pixels free), grid dim, translation tx,ty, quarter-turn direction"})
					}
				}
			}
			for _, g := range [][6]int64{{6, 5, 6, 5, 0, 0}, {6, 5, 1, 1, 5, 4}, {6, 5, 7, 5, -1, 0}, {6, 5, 6, 6, 0, -1}, {6, 5, 8, 5, -1, 0}, {33, 2, 33, 2, 0, 0}, {6, 5, 0, 3, 0, 0}, {6, 5, 3, -1, 0, 0}} {
				ts = append(ts, Task{Pkg: "common", Func: "VerifC19SampleTranslate", Args: g[:], Note: "image w,h, grid dimX,dimY, tx,ty"})
			}
			rr := int64(3)
			if tier == "thorough" {
				rr = 4
			}
			for x0 := int64(0); x0 <= rr; x0++ {
				ts = append(ts, Task{Pkg: "common", Func: "VerifC19TransformGround", Args: ints(rr, x0), Note: "ground (concrete) enumeration: every convex quadrilateral with integer corners in 0..r and first x = x0, both directions"})
			}
			return ts
		},
		Bounds: func(tier string) map[string]interface{} {
			return map[string]interface{}{
				"transform_ground": "supplementary concrete enumeration (not symbolic): all strictly convex quadrilaterals with integer corners in 0..3 (thorough 0..4): corners map within 1e-6 in both directions",
				"nudge":            "1-3 points with free float64 coordinates (|v| < 2^20) on images 1x1, 7x5, 64x64 (+ 2x9, 33x1, 1x40, 177x177 thorough)",
				"sampling":         "free 6x5 images (and 33x2), grids up to 8x6, every integer translation -3..5 (thorough -5..7) in both axes, both quarter turns; transform coefficients concrete",
			}
		},
		Exhaustive: func(tier string) bool { return false },
		Outside: []string{
			"exactness of PerspectiveTransform for free corner coordinates (affine and projective): the float64 products/divisions with symbolic corners do not finish in cvc5/z3 (probed: 8 obligations inconclusive at 75 s each, 3-bit coordinates) — not decided, not sampled",
			"images larger than 6x5 for the sampling obligations (the code is size-agnostic; not proved)",
		},
		Stubs:       []string{"float64 -> int conversions assumed in range (|v| < 2^20 is assumed for every coordinate)"},
		Assumptions: append([]string{"floating point: SMT-LIB FloatingPoint 11 53, conversions RTZ as Go's int(f)"}, commonAssumptions...),
	}
}
