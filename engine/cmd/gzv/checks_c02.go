package main

func c02Tasks(tier string) []Task {
	var ts []Task
	dm := "datamatrix"
	for prefix := int64(0); prefix < 9; prefix++ {
		for tail := int64(0); tail < 4; tail++ {
			for n := int64(0); n <= 1; n++ {
				shape := (prefix + tail) % 3
				if tier != "thorough" && n == 1 && tail == 3 && prefix > 2 {
					continue
				}
				ts = append(ts, Task{Pkg: dm, Func: "VerifC02HighLevel", Args: ints(prefix, n, tail, shape), Timeout: 300,
					Note: "mode-latching prefix (ASCII, C40, Text, X12, EDIFACT, Base-256, C40', digits, X12'), free Latin-1 characters, tail (none, 'A', '12', 'é'), shape hint"})
			}
		}
	}
	// long Base-256 runs: around the one-/two-byte length field switch (249/250) and above 500
	for _, a := range [][4]int64{{9, 0, 0, 0}, {9, 1, 0, 0}, {9, 1, 1, 0}, {9, 1, 2, 0}, {10, 0, 0, 0}, {10, 1, 0, 0}, {10, 1, 1, 0}} {
		ts = append(ts, Task{Pkg: dm, Func: "VerifC02HighLevel", Args: a[:], Timeout: 300, Note: "Base-256 run of 248 / 504 characters + free character + tail"})
	}
	// X12 with an incomplete triplet pending when a free character arrives
	x12 := [][4]int64{{11, 0, 4, 0}}
	if tier == "thorough" {
		// (11,1,4,0) is the task that exposed the swallowed X12 error; ~7 minutes, so not in the quick tier
		// (the quick tier still runs its confirmation variant for the open finding)
		x12 = append(x12, [4]int64{11, 1, 4, 0}, [4]int64{12, 1, 4, 0}, [4]int64{11, 1, 0, 0})
	}
	for _, a := range x12 {
		ts = append(ts, Task{Pkg: dm, Func: "VerifC02HighLevel", Args: a[:], Timeout: 300, Note: "X12 prefix with 2 / 1 characters of a triplet pending + free character + X12 tail"})
	}
	if tier == "thorough" {
		ts = append(ts, Task{Pkg: dm, Func: "VerifC02HighLevel", Args: ints(0, 2, 0, 0), Timeout: 600, MaxPaths: 400000})
		ts = append(ts, Task{Pkg: dm, Func: "VerifC02HighLevel", Args: ints(1, 2, 0, 0), Timeout: 600, MaxPaths: 400000})
	}
	for n := int64(0); n <= 1; n++ {
		for shape := int64(0); shape < 3; shape++ {
			ts = append(ts, Task{Pkg: dm, Func: "VerifC02Writer", Args: ints(n, shape), Redirect: dmSymbolStubsKeepParser(), Timeout: 300, Note: "free Latin-1 characters, shape hint: real writer -> real matrix decoder (RS stubbed, pairing checked)"})
		}
	}
	for _, i := range dmSizes(tier) {
		ts = append(ts, Task{Pkg: dm, Func: "VerifC02Symbol", Args: ints(i), Redirect: dmSymbolStubs(), Note: "size index: all data codewords free: ECC interleave -> placement -> drawing -> matrix decoder returns the data codewords"})
	}
	for i := int64(0); i < 30; i++ {
		ts = append(ts, Task{Pkg: "datamatrix/decoder", Func: "VerifC02Blocks", Args: ints(i), Note: "size index: all raw codewords free; de-interleave"})
	}
	return ts
}

func dmSymbolStubsKeepParser() map[string]string {
	return map[string]string{
		"datamatrix/encoder.createECCBlock":           "datamatrix/encoder.verifStubECC",
		"datamatrix/decoder.(*Decoder).correctErrors": "datamatrix/decoder.verifCheckPairing",
	}
}

func init() {
	c12DMTasks = func(tier string) []Task {
		var ts []Task
		for n := int64(0); n <= 1; n++ {
			ts = append(ts, Task{Pkg: "datamatrix", Func: "VerifC02Writer", Args: ints(n, 0), Redirect: dmSymbolStubsKeepParser(), Timeout: 300, Note: "Data Matrix writer: free content characters (shared with C02)"})
		}
		return ts
	}
	checks["C02"] = &CheckDef{
		Tasks: func(tier string, seed int64) []Task { return c02Tasks(tier) },
		Bounds: func(tier string) map[string]interface{} {
			return map[string]interface{}{
				"high_level":  "real EncodeHighLevel -> real DecodedBitStreamParser_decode: 9 concrete prefixes that latch ASCII / C40 / Text / X12 / EDIFACT / Base-256 (two residues for C40 and X12) + 0..1 free ISO-8859-1 characters (all 254 values except 0xC2/0xC3) + 4 tails, 3 shape hints; thorough adds 2 free characters after the ASCII and C40 prefixes",
				"writer":      "whole writer and matrix decoder with 0..1 free characters and 3 shapes",
				"symbol":      "codeword level: all data codewords free for 15 (thorough 30) sizes; de-interleave for all 30",
				"termination": "every loop of the mode machine is unrolled under a step/visit budget; a run that exceeded it would be reported INCOMPLETE, none did",
			}
		},
		Exhaustive: func(tier string) bool { return false },
		Outside: []string{
			"messages with more than one (two) free characters after the prefixes: the mode machine forks per character class and value (~254^n paths)",
			"characters 0xC2 / 0xC3 as free characters (excluded so that the known raw-byte rendering cannot alias a UTF-8 lead byte)",
			"min/max size hints in the high-level tasks (C13 covers the lookup); macro 05/06 envelopes; Reed-Solomon algebra (stubbed; C04, C08)",
		},
		Stubs:       []string{"createECCBlock -> rotation stub; correctErrors -> pairing check; DecodedBitStreamParser_decode -> raw bytes (symbol tasks only)", "x/text ISO-8859-1 codec -> model"},
		Assumptions: commonAssumptions,
	}
}
