package main

import "math/rand"

func init() {
	checks["C13"] = &CheckDef{
		Tasks: func(tier string, seed int64) []Task {
			var ts []Task
			enc := "qrcode/encoder"
			for lvl := int64(0); lvl < 4; lvl++ {
				for mode := int64(0); mode < 4; mode++ {
					ts = append(ts, Task{Pkg: enc, Func: "VerifC13Recommend", Args: ints(lvl, mode), Note: "level(L,M,Q,H), mode(numeric,alnum,byte,kanji); header 0..40 bits, payload 0..23700 bits symbolic"})
				}
				ts = append(ts, Task{Pkg: enc, Func: "VerifC13WillFit", Args: ints(lvl), Note: "level; input bits 0..24000 symbolic, all 40 versions"})
			}
			vers := []int64{-1, 0, 1, 2, 9, 10, 41}
			if tier == "thorough" {
				vers = nil
				for v := int64(-1); v <= 41; v++ {
					vers = append(vers, v)
				}
			}
			for _, v := range vers {
				for lvl := int64(0); lvl < 4; lvl++ {
					if tier != "thorough" && lvl != 0 && lvl != 3 {
						continue
					}
					for _, d := range []int64{0, 1, -1} {
						ts = append(ts, Task{Pkg: enc, Func: "VerifC13Forced", Args: ints(lvl, v, d, int64((v+lvl)&1)), Note: "level, forced version, digits relative to capacity, hint as string?"})
					}
				}
			}
			if tier != "thorough" {
				ts = append(ts, Task{Pkg: enc, Func: "VerifC13Forced", Args: ints(0, 40, 0, 0)}, Task{Pkg: enc, Func: "VerifC13Forced", Args: ints(0, 40, 1, 1)},
					Task{Pkg: enc, Func: "VerifC13Forced", Args: ints(2, 27, 0, 0)}, Task{Pkg: enc, Func: "VerifC13Forced", Args: ints(2, 26, 1, 0)})
			}
			for _, c := range [][4]int64{{0, 0, 40, 7089}, {1, 0, 40, 4296}, {2, 0, 40, 2953}, {0, 0, 1, 41}, {1, 0, 1, 25}, {2, 0, 1, 17}, {0, 3, 1, 17}, {1, 3, 1, 10}, {2, 3, 1, 7}, {0, 3, 40, 3057}, {1, 3, 40, 1852}, {2, 3, 40, 1273}, {0, 1, 40, 5596}, {0, 2, 40, 3993}} {
				ts = append(ts, Task{Pkg: enc, Func: "VerifC13Capacities", Args: c[:], Note: "mode, level, version, published capacity (ISO 18004 table 7)"})
			}
			dm := "datamatrix/encoder"
			r := rand.New(rand.NewSource(seed))
			for shape := int64(0); shape < 3; shape++ {
				ts = append(ts, Task{Pkg: dm, Func: "VerifC13DMNoFail", Args: ints(shape)})
				if tier == "thorough" {
					for mi := int64(-1); mi < 30; mi++ {
						for ma := int64(-1); ma < 30; ma++ {
							ts = append(ts, Task{Pkg: dm, Func: "VerifC13DMLookup", Args: ints(shape, mi, ma), Note: "shape, min-size index, max-size index (-1 none); codewords 0..1600 symbolic"})
						}
					}
				} else {
					pairs := [][2]int64{{-1, -1}, {0, -1}, {-1, 0}, {23, -1}, {-1, 23}, {9, 14}, {14, 9}, {24, 29}, {-1, 29}, {26, -1}, {3, 3}}
					for i := 0; i < 14; i++ {
						pairs = append(pairs, [2]int64{int64(r.Intn(31)) - 1, int64(r.Intn(31)) - 1})
					}
					for _, p := range pairs {
						ts = append(ts, Task{Pkg: dm, Func: "VerifC13DMLookup", Args: ints(shape, p[0], p[1]), Note: "shape, min-size index, max-size index (-1 none); codewords 0..1600 symbolic"})
					}
				}
			}
			for _, f := range []int64{0, 1, 3, 44, 45, 204, 1304, 1558} {
				ts = append(ts, Task{Pkg: dm, Func: "VerifC13DMContext", Args: ints(f), Note: "first length; second length 0..1600 symbolic"})
			}
			return ts
		},
		Bounds: func(tier string) map[string]interface{} {
			b := map[string]interface{}{
				"qr_recommend":  "all 4 levels x 4 modes; header bits 0..40 and payload bits 0..23700 jointly symbolic (every length at once)",
				"qr_willfit":    "all 40 versions x 4 levels; input bits 0..24000 symbolic",
				"qr_capacities": "published capacities of versions 1 and 40 (numeric/alphanumeric/byte) as ground runs of the real segment encoders",
				"dm_lookup":     "codewords 0..1600 symbolic; 3 shapes; (min,max) pairs from the 30-size list",
			}
			if tier == "thorough" {
				b["qr_forced"] = "forced versions -1..41 x 4 levels x {capacity-1, capacity, capacity+1} digits"
				b["dm_pairs"] = "all 31x31 (min,max) pairs incl. none"
			} else {
				b["qr_forced"] = "forced versions {-1,0,1,2,9,10,26,27,40,41} x levels {L,H} x {capacity-1, capacity, capacity+1} digits"
				b["dm_pairs"] = "11 boundary pairs + 14 seeded pairs per shape"
			}
			return b
		},
		Exhaustive: func(tier string) bool { return false },
		Outside:    []string{"Kanji published capacity (needs Shift_JIS content); forced versions with non-numeric content; Data Matrix min/max dimensions that are not entries of the size list"},
		Stubs:      []string{"BitArray reduced to its size for recommendVersion (only GetSize is consulted)", "calculateMaskPenalty not run in forced-version tasks (mask forced to 3)"},
		Assumptions: append([]string{
			"reference capacity tables typed from ISO/IEC 18004 table 9 and ISO/IEC 16022 table 7, cross-checked by the identities in refSelfCheck/refDMSelfCheck",
		}, commonAssumptions...),
	}
}
