package main

func init() {
	checks["C12"] = &CheckDef{
		Tasks: func(tier string, seed int64) []Task {
			var ts []Task
			ecStub := map[string]string{"qrcode/encoder.generateECBytes": "qrcode/encoder.verifStubEC"}
			sizes := [][2]int64{{0, 0}, {-1, 0}, {0, -2}, {1, 1}, {40, 3}, {7, 64}}
			for wi := int64(0); wi < 9; wi++ {
				for _, s := range sizes {
					for as := int64(0); as < 2; as++ {
						if tier != "thorough" && as == 1 && s[0] != 0 {
							continue
						}
						ts = append(ts, Task{Pkg: "oned", Func: "VerifC12OneDSizes", Args: ints(wi, s[0], s[1], as), Note: "writer (EAN-13, EAN-8, UPC-A, UPC-E, Code 39, Code 93, Code 128, ITF, Codabar), requested width, height, MARGIN given as string?; MARGIN free in -70..30"})
					}
				}
				ts = append(ts, Task{Pkg: "oned", Func: "VerifC12OneDFormats", Args: ints(wi), Note: "writer asked for each of the 17 BarcodeFormat values"})
				nmax := int64(1)
				if tier == "thorough" {
					nmax = 2
				}
				for n := int64(0); n <= nmax; n++ {
					ts = append(ts, Task{Pkg: "oned", Func: "VerifC12OneDContent", Args: ints(wi, n), Timeout: 600, Note: "writer, number of free content bytes (full byte range)"})
				}
			}
			for _, s := range sizes {
				for as := int64(0); as < 2; as++ {
					ts = append(ts, Task{Pkg: "qrcode", Func: "VerifC12QRMargin", Args: ints(s[0], s[1], as), Redirect: ecStub, Note: "requested width, height, MARGIN as string?; MARGIN free in -12..12"})
				}
			}
			for ec := int64(0); ec < 10; ec++ {
				ts = append(ts, Task{Pkg: "qrcode", Func: "VerifC12QRHints", Args: ints(ec, ec%10, (ec*2)%9), Redirect: ecStub, Note: "ERROR_CORRECTION kind, QR_VERSION kind, QR_MASK_PATTERN kind (in-range, out-of-range, wrong type)"})
				ts = append(ts, Task{Pkg: "qrcode", Func: "VerifC12QRHints", Args: ints(ec%4, (ec+3)%10, ec%9), Redirect: ecStub})
			}
			nq := int64(2)
			if tier == "thorough" {
				nq = 3
			}
			for n := int64(0); n <= nq; n++ {
				ts = append(ts, Task{Pkg: "qrcode", Func: "VerifC12QRContent", Args: ints(n), Redirect: ecStub, Timeout: 600, Note: "number of free content bytes (full byte range)"})
			}
			ts = append(ts, Task{Pkg: "qrcode", Func: "VerifC12QRFormats", Redirect: ecStub})
			ts = append(ts, c12DMTasks(tier)...)
			return ts
		},
		Bounds: func(tier string) map[string]interface{} {
			return map[string]interface{}{
				"oned":       "9 writers: MARGIN -70..30 (int and decimal string) x 6 requested sizes incl. negative; all 17 formats; contents of 0..1 (thorough 2) free bytes over the full byte range",
				"qr":         "MARGIN -12..12 x 6 requested sizes; ERROR_CORRECTION / QR_VERSION / QR_MASK_PATTERN in range, out of range and of wrong type; contents of 0..2 (3) free bytes; all 17 formats",
				"datamatrix": "see C02 tasks shared here (contents of 0..2 free bytes, shapes, size hints) when registered",
			}
		},
		Exhaustive:  func(tier string) bool { return false },
		Outside:     []string{"contents longer than 2-3 free bytes (e.g. 81 / 4000 characters with all bytes free); hint values of undocumented types beyond the samples; CHARACTER_SET / GS1_FORMAT / FORCE_CODE_SET hints", "QR Reed-Solomon parity generation (stubbed; C04)"},
		Stubs:       []string{"generateECBytes -> verifStubEC in the QR tasks", "x/text encoders on symbolic content: UTF-8 / ISO-8859-1 models"},
		Assumptions: commonAssumptions,
	}
}

var c12DMTasks = func(tier string) []Task { return nil }
