package main

// C18 — no library-level shared state is written after package initialisation.
//
// Decided with the shared-write monitor of the symbolic executor: every cell and map reachable from a
// package-level variable of the repository when initialisation ends is marked; a store into a marked
// cell on any explored path of any harness is a finding, confirmed natively by running the harness
// with the counter-model in two goroutines under the race detector.
func init() {
	from := func(id, tier string, seed int64, keep func(Task) bool) []Task {
		var out []Task
		for _, t := range checks[id].Tasks(tier, seed) {
			if t.Confirm != "" || (keep != nil && !keep(t)) {
				continue
			}
			t.Monitor = true
			t.NoReach = true
			t.Note = "[" + id + " task under the shared-write monitor] " + t.Note
			out = append(out, t)
		}
		return out
	}
	checks["C18"] = &CheckDef{
		Tasks: func(tier string, seed int64) []Task {
			var ts []Task
			// un-stubbed end-to-end paths (writers with the real Reed-Solomon encoder, readers through
			// binariser, detector/row scanner, decoder)
			for wi := int64(0); wi <= 8; wi++ {
				m := int64(-1)
				if wi == 3 {
					m = 14
				}
				ts = append(ts, Task{Pkg: "oned", Func: "VerifC03Concrete", Args: ints(wi, 0, 0, m), Monitor: true, Note: "1-D writer -> image -> reader, concrete sample content"})
				ts = append(ts, Task{Pkg: "oned", Func: "VerifC03Concrete", Args: ints(wi, 300, 40, 20), Monitor: true})
			}
			ts = append(ts, Task{Pkg: "oned", Func: "VerifC03Free", Args: ints(0, 3, 7, -1, 0, 0), Monitor: true, Note: "EAN-13 with two free digits"})
			ts = append(ts, Task{Pkg: "oned", Func: "VerifC03Free", Args: ints(8, 0, 3, -1, 0, 0), Monitor: true, Note: "Codabar with free start and data character"})
			ts = append(ts, Task{Pkg: "qrcode", Func: "VerifC18QR", Args: ints(0), Monitor: true, Note: "QR writer (real RS encoder) -> image -> detector -> decoder, concrete content"})
			ts = append(ts, Task{Pkg: "qrcode", Func: "VerifC18QR", Args: ints(1), Monitor: true})
			ts = append(ts, Task{Pkg: "datamatrix", Func: "VerifC18DM", Args: ints(0), Monitor: true, Note: "Data Matrix writer -> image -> detector -> decoder, concrete content"})
			ts = append(ts, Task{Pkg: "datamatrix", Func: "VerifC18DM", Args: ints(1), Monitor: true})
			cheap := []string{"C06", "C10", "C12", "C14"}
			if tier == "thorough" {
				cheap = append(cheap, "C08", "C13", "C19", "C16", "C20", "C02", "C05", "C04", "C17", "C01", "C07", "C03", "C09")
			}
			for _, id := range cheap {
				ts = append(ts, from(id, "quick", seed, nil)...)
			}
			if tier != "thorough" {
				// a slice of the dearer checks so that every package is driven in the quick tier too
				n := map[string]int{}
				for _, id := range []string{"C08", "C13", "C19", "C16", "C20", "C02", "C05", "C04", "C17", "C01"} {
					ts = append(ts, from(id, "quick", seed, func(t Task) bool {
						n[id+t.Func]++
						return n[id+t.Func] <= 2 && t.Func != "VerifC17HybridBlock" && t.Func != "VerifC04DecodeZero"
					})...)
				}
			}
			return ts
		},
		Bounds: func(tier string) map[string]interface{} {
			return map[string]interface{}{
				"paths":   "every path explored by the listed harnesses of the other checks (their bounds apply) plus concrete end-to-end write/read paths for QR, Data Matrix and the nine 1-D symbologies; quick: all tasks of C06, C10, C12, C14 and two tasks per harness of C08, C13, C19, C16, C20, C02, C05, C04, C17, C01; thorough: all quick-tier tasks of all other checks",
				"monitor": "cells and maps reachable from package-level variables of the repository's packages when package initialisation ends; a store, append-in-place, copy or map update into one of them while a harness runs is reported",
			}
		},
		Exhaustive:  func(tier string) bool { return false },
		Outside:     []string{"actual interleavings are not explored: the check establishes the sufficient condition 'no path writes library-level shared state after initialisation', from which race freedom on that state and schedule-independence of results follow for any number of goroutines using private instances", "paths not reached by the harnesses (Aztec detector, multi-QR reader, PDF417-style formats the library does not have)", "state inside the Go runtime, the standard library and golang.org/x/text (encoders are obtained per call)", "writes guarded by sync.Mutex / sync.Once are treated as synchronised and not reported"},
		Assumptions: append([]string{"goroutines use private reader/writer instances (the property's premise): stores into objects allocated during the call are not shared"}, commonAssumptions...),
	}
}
