// gzv: solver-based checks of gozxing properties (see /verif/DESIGN.md).
package main

import (
	"encoding/json"
	"flag"
	"fmt"
	"os"
	"path/filepath"
	"runtime"
	"runtime/debug"
	"runtime/pprof"
	"sort"
	"strconv"
	"strings"
	"sync"
	"sync/atomic"
	"time"

	"golang.org/x/tools/go/ssa"

	"verif/engine/solver"
	"verif/engine/sx"
)

// Task is one symbolic exploration of a harness function with concrete parameters.
type Task struct {
	Pkg      string            // package path below the module root ("" = root)
	Func     string            // harness function
	Args     []int64           // concrete parameters
	Note     string            // what the parameters mean
	NoMerge  bool              // disable state merging (pure forking)
	MaxPaths int               // 0 = default
	Unwind   int               // per-block visit bound (0 = default)
	Backends []string          // obligation back ends (default z3)
	Timeout  int               // obligation timeout seconds (0 = tier default)
	Fresh    bool              // send obligations straight to fresh solver processes
	Confirm  string            // known-finding id to confirm (explore only its region)
	Redirect map[string]string // "pkg.Func" -> "pkg.Func": calls to the key run the value instead (stub, part of the claim)
	GFMul    bool              // summarise GenericGF.Multiply as the polynomial product (validated by C04)
	Monitor  bool              // C18: report stores into package-level state; other findings of the harness are dropped
	NoReach  bool              // harness has no Reach witness (e.g. totality harness where every path may end early)
}

func (t Task) String() string {
	a := make([]string, len(t.Args))
	for i, x := range t.Args {
		a[i] = strconv.FormatInt(x, 10)
	}
	p := t.Pkg
	if p == "" {
		p = "."
	}
	return fmt.Sprintf("%s.%s(%s)", p, t.Func, strings.Join(a, ","))
}

type TaskResult struct {
	Task     Task
	Res      sx.RunResult
	Dur      time.Duration
	Err      string
	Replays  []string // replay files written for findings
	Verdicts []string // native replay verdicts
	Skipped  bool     // not started: the thorough tier's wall-clock budget was used up
}

type KnownFinding struct {
	ID       string  `json:"id"`
	Property string  `json:"property"`
	Status   string  `json:"status"` // open | fixed
	What     string  `json:"what"`
	Pkg      string  `json:"pkg"`
	Func     string  `json:"func"`
	Args     []int64 `json:"args"`
	Commit   string  `json:"commit,omitempty"`
}

func loadKnown() []KnownFinding {
	b, err := os.ReadFile(filepath.Join(verifDir, "known_findings.json"))
	if err != nil {
		return nil
	}
	var f struct {
		Findings []KnownFinding `json:"findings"`
	}
	if err := json.Unmarshal(b, &f); err != nil {
		fmt.Fprintln(os.Stderr, "known_findings.json:", err)
		os.Exit(2)
	}
	return f.Findings
}

func main() {
	debug.SetGCPercent(250)
	if len(os.Args) < 2 {
		fmt.Fprintln(os.Stderr, "usage: gzv check <ID> [--tier quick|thorough] | run ... | replay <file> | selftest | list")
		os.Exit(2)
	}
	switch os.Args[1] {
	case "check":
		os.Exit(cmdCheck(os.Args[2:]))
	case "run":
		os.Exit(cmdRun(os.Args[2:]))
	case "replay":
		os.Exit(cmdReplay(os.Args[2:]))
	case "list":
		for _, id := range checkIDs() {
			fmt.Println(id)
		}
	default:
		fmt.Fprintln(os.Stderr, "unknown command", os.Args[1])
		os.Exit(2)
	}
}

func seedFromEnv() int64 {
	if s := os.Getenv("VERIF_SEED"); s != "" {
		if v, err := strconv.ParseInt(s, 10, 64); err == nil {
			return v
		}
	}
	return 1
}

func cmdRun(args []string) int {
	fs := flag.NewFlagSet("run", flag.ExitOnError)
	pkg := fs.String("pkg", "", "package below module root")
	fn := fs.String("func", "", "harness function")
	argStr := fs.String("args", "", "comma-separated ints")
	nomerge := fs.Bool("nomerge", false, "")
	trace := fs.Bool("trace", false, "")
	confirm := fs.String("confirm", "", "known finding id to confirm")
	fresh := fs.Bool("fresh", false, "")
	gfmul := fs.Bool("gfmul", false, "")
	monitor := fs.Bool("monitor", false, "report stores into package-level state")
	backends := fs.String("backends", "", "comma-separated obligation back ends")
	redirect := fs.String("redirect", "", "from=to,...")
	fs.Parse(args)
	var ints []int64
	if *argStr != "" {
		for _, s := range strings.Split(*argStr, ",") {
			v, err := strconv.ParseInt(strings.TrimSpace(s), 10, 64)
			if err != nil {
				fmt.Fprintln(os.Stderr, err)
				return 2
			}
			ints = append(ints, v)
		}
	}
	P, err := loadProgram()
	if err != nil {
		fmt.Fprintln(os.Stderr, err)
		return 2
	}
	if os.Getenv("GZV_MEM") != "" {
		var ms runtime.MemStats
		runtime.GC()
		runtime.ReadMemStats(&ms)
		fmt.Fprintf(os.Stderr, "heap after load: %d MB (sys %d MB)\n", ms.HeapAlloc>>20, ms.Sys>>20)
	}
	if pf := os.Getenv("GZV_PROF"); pf != "" {
		f, _ := os.Create(pf)
		pprof.StartCPUProfile(f)
		defer pprof.StopCPUProfile()
	}
	t := Task{Pkg: *pkg, Func: *fn, Args: ints, NoMerge: *nomerge, Confirm: *confirm, Fresh: *fresh, GFMul: *gfmul, Monitor: *monitor}
	if *backends != "" {
		t.Backends = strings.Split(*backends, ",")
	}
	if *redirect != "" {
		t.Redirect = map[string]string{}
		for _, kv := range strings.Split(*redirect, ",") {
			p := strings.SplitN(kv, "=", 2)
			t.Redirect[p[0]] = p[1]
		}
	}
	r := runTasks(P, []Task{t}, "quick", 1, *trace, "DBG")[0]
	printTaskResult(r)
	if r.Err != "" {
		return 2
	}
	if len(r.Res.Findings) > 0 {
		return 1
	}
	return 0
}

func printTaskResult(r TaskResult) {
	s := r.Res.Stats
	fmt.Printf("task %s: %.2fs paths=%d steps=%d forks=%d merges=%d aborts=%d obligations=%d trivial=%d unsat=%d sat=%d inconclusive=%d reach=%d feasq=%d bymodel=%d\n",
		r.Task, r.Dur.Seconds(), s.Paths, s.Steps, s.Forks, s.Merges, s.MergeAborts, s.Obligations, s.Trivial, s.SolverUnsat, s.SolverSat, s.Inconclusive, s.ReachWitnesses, s.FeasQueries, s.FeasByModel)
	fmt.Printf("  getvalue %.2fs\n", float64(atomic.LoadInt64(&solver.NanosGetValue))/1e9)
	fmt.Printf("  maxpc=%d concretized=%d solver: incr=%d (%.2fs) fresh=%d (%.2fs)\n", s.MaxPC, s.Concretized,
		atomic.LoadInt64(&solver.QueriesIncr), float64(atomic.LoadInt64(&solver.NanosIncr))/1e9,
		atomic.LoadInt64(&solver.QueriesFresh), float64(atomic.LoadInt64(&solver.NanosFresh))/1e9)
	if r.Err != "" {
		fmt.Println("  ERROR:", r.Err)
	}
	for _, inc := range r.Res.Incomplete {
		fmt.Println("  INCOMPLETE:", inc)
	}
	for i, f := range r.Res.Findings {
		fmt.Printf("  FINDING %s: %s @ %s inputs=%v\n", f.Kind, f.Msg, f.Where, compactInputs(f.Inputs))
		if i < len(r.Verdicts) {
			fmt.Printf("    native replay: %s (%s)\n", r.Verdicts[i], r.Replays[i])
		}
	}
}

func compactInputs(in []sx.InVal) string {
	var sb strings.Builder
	for i, v := range in {
		if i > 0 {
			sb.WriteString(" ")
		}
		if i > 48 {
			sb.WriteString("...")
			break
		}
		fmt.Fprintf(&sb, "%d", int64(v.Val))
	}
	return sb.String()
}

// runTasks explores all tasks on a worker pool; findings are replayed natively afterwards.
func runTasks(P *Program, tasks []Task, tier string, seed int64, trace bool, prop string) []TaskResult {
	results := make([]TaskResult, len(tasks))
	nw := runtime.NumCPU()
	if v := os.Getenv("GZV_WORKERS"); v != "" {
		if n, err := strconv.Atoi(v); err == nil && n > 0 {
			nw = n
		}
	}
	if nw > len(tasks) {
		nw = len(tasks)
	}
	known := loadKnown()
	// thorough tier: tasks are started in order until the wall-clock budget is used up; what was not
	// started is reported as not explored (never as held)
	budget := time.Duration(0)
	if tier == "thorough" {
		budget = 40 * time.Minute
		if v := os.Getenv("GZV_BUDGET_S"); v != "" {
			if n, err := strconv.Atoi(v); err == nil && n >= 0 {
				budget = time.Duration(n) * time.Second
			}
		}
	}
	tStart := time.Now()
	var next int64 = -1
	var wg sync.WaitGroup
	for w := 0; w < nw; w++ {
		wg.Add(1)
		go func() {
			defer wg.Done()
			var m *sx.Machine
			defer func() {
				if m != nil {
					m.Close()
				}
			}()
			for {
				i := int(atomic.AddInt64(&next, 1))
				if i >= len(tasks) {
					return
				}
				if budget > 0 && tasks[i].Confirm == "" && time.Since(tStart) > budget {
					results[i] = TaskResult{Task: tasks[i], Skipped: true}
					continue
				}
				if m == nil {
					m = sx.NewMachine(P.Prog)
					allowed := map[*ssa.Package]bool{}
					for _, p := range P.InitPkgs {
						allowed[p] = true
					}
					m.InitAllowed = func(p *ssa.Package) bool { return allowed[p] }
					if err := safely(func() {
						m.RunInit(P.InitPkgs)
						var repo []*ssa.Package
						for _, p := range P.InitPkgs {
							if strings.HasPrefix(p.Pkg.Path(), modPath) {
								repo = append(repo, p)
							}
						}
						m.MarkShared(repo)
					}); err != "" {
						results[i] = TaskResult{Task: tasks[i], Err: "init: " + err}
						m.Close()
						m = nil
						continue
					}
				}
				if os.Getenv("GZV_PROGRESS") == "2" {
					fmt.Fprintf(os.Stderr, "[start %d] %s\n", i+1, tasks[i])
				}
				results[i] = runOne(P, m, tasks[i], tier, known, trace)
				if os.Getenv("GZV_PROGRESS") != "" {
					st := results[i].Res.Stats
					fmt.Fprintf(os.Stderr, "[%d/%d] %s %.1fs paths=%d obl=%d unsat=%d sat=%d inc=%d err=%q\n", i+1, len(tasks), tasks[i], results[i].Dur.Seconds(), st.Paths, st.Obligations, st.SolverUnsat, len(results[i].Res.Findings), len(results[i].Res.Incomplete), firstLine(results[i].Err))
				}
				if results[i].Err != "" {
					// the machine may be in an undefined state after an engine error
					m.Close()
					m = nil
				}
			}
		}()
	}
	wg.Wait()
	// native replays of findings, batched per package
	replayFindings(P, results, prop)
	return results
}

func safely(f func()) (err string) {
	defer func() {
		if r := recover(); r != nil {
			err = fmt.Sprint(r)
			if os.Getenv("GZV_STACK") != "" {
				err += "\n" + string(debug.Stack())
			}
		}
	}()
	f()
	return ""
}

func runOne(P *Program, m *sx.Machine, t Task, tier string, known []KnownFinding, trace bool) TaskResult {
	t0 := time.Now()
	res := TaskResult{Task: t}
	fn, err := P.lookupFunc(t.Pkg, t.Func)
	if err != nil {
		res.Err = err.Error()
		return res
	}
	if len(t.Args) != len(fn.Params) {
		res.Err = fmt.Sprintf("harness %s takes %d arguments, task gives %d", t.Func, len(fn.Params), len(t.Args))
		return res
	}
	m.ResetForTask()
	m.Known = map[string]string{}
	for _, k := range known {
		if k.Status == "open" {
			if k.ID == t.Confirm {
				m.Known[k.ID] = "confirm"
			} else {
				m.Known[k.ID] = "exclude"
			}
		}
	}
	m.EnableMerge = !t.NoMerge
	m.MonitorShared = t.Monitor
	m.Deadline = time.Time{}
	if tier == "thorough" {
		lim := 20 * time.Minute
		if v := os.Getenv("GZV_TASK_LIMIT_S"); v != "" {
			if n, err := strconv.Atoi(v); err == nil && n > 0 {
				lim = time.Duration(n) * time.Second
			}
		}
		m.Deadline = time.Now().Add(lim)
	}
	m.MaxPaths = 200_000
	if t.MaxPaths > 0 {
		m.MaxPaths = t.MaxPaths
	}
	m.MaxBlockVisit = 50_000_000
	if t.Unwind > 0 {
		m.MaxBlockVisit = t.Unwind
	}
	m.Backends = []string{"z3"}
	if len(t.Backends) > 0 {
		m.Backends = t.Backends
	}
	m.FreshFirst = t.Fresh
	m.SummarizeGFMul = t.GFMul
	m.Redirect = map[*ssa.Function]*ssa.Function{}
	for from, to := range t.Redirect {
		ff, e1 := P.lookupQualified(from)
		tf, e2 := P.lookupQualified(to)
		if e1 != nil || e2 != nil {
			res.Err = fmt.Sprintf("redirect %s -> %s: %v %v", from, to, e1, e2)
			return res
		}
		m.Redirect[ff] = tf
	}
	m.OblTimeout = 30 * time.Second
	if tier == "thorough" {
		m.OblTimeout = 300 * time.Second
	}
	if t.Timeout > 0 {
		m.OblTimeout = time.Duration(t.Timeout) * time.Second
	}
	m.Trace = trace
	if e := safely(func() { res.Res = m.Explore(fn, sx.MkArgs(fn, t.Args)) }); e != "" {
		res.Err = e
	}
	if t.Monitor {
		var keep []sx.Finding
		for _, f := range res.Res.Findings {
			if f.Kind == "shared-write" {
				keep = append(keep, f)
			}
		}
		res.Res.Findings = keep
	}
	res.Dur = time.Since(t0)
	return res
}

// ---- evidence ----

type Evidence struct {
	PropertyID  string                 `json:"property_id"`
	Tier        string                 `json:"tier"`
	Seed        int64                  `json:"seed"`
	Level       string                 `json:"level"`
	Coverage    map[string]interface{} `json:"coverage"`
	Assumptions []string               `json:"assumptions"`
	WallS       float64                `json:"wall_s"`
	Violations  int                    `json:"violations"`
}

func writeEvidence(id string, ev *Evidence) {
	dir := envOr("GZV_EVIDENCE_DIR", filepath.Join(verifDir, "evidence"))
	os.MkdirAll(dir, 0o755)
	b, _ := json.MarshalIndent(ev, "", " ")
	os.WriteFile(filepath.Join(dir, id+".json"), append(b, '\n'), 0o644)
}

func cmdCheck(args []string) int {
	if len(args) < 1 {
		fmt.Fprintln(os.Stderr, "usage: gzv check <ID> [--tier quick|thorough]")
		return 2
	}
	id := args[0]
	fs := flag.NewFlagSet("check", flag.ExitOnError)
	tier := fs.String("tier", envOr("VERIF_TIER", "quick"), "quick|thorough")
	fs.Parse(args[1:])
	def, ok := checks[id]
	if !ok {
		fmt.Fprintln(os.Stderr, "no check for", id)
		return 2
	}
	seed := seedFromEnv()
	t0 := time.Now()
	P, err := loadProgram()
	if err != nil {
		fmt.Fprintln(os.Stderr, "LOAD FAILED:", err)
		ev := &Evidence{PropertyID: id, Tier: *tier, Seed: seed, Level: "model_checking", WallS: time.Since(t0).Seconds(),
			Coverage: map[string]interface{}{"evaluations": 0, "distinct_nontrivial": 0, "explanation": "repository or harness failed to load: " + err.Error()}}
		writeEvidence(id, ev)
		return 2
	}
	loadDur := time.Since(t0)
	tasks := def.Tasks(*tier, seed)
	known := loadKnown()
	// confirmation tasks for open known findings of this property
	nMain := len(tasks)
	for _, k := range known {
		if k.Property == id && k.Status == "open" {
			tasks = append(tasks, Task{Pkg: k.Pkg, Func: k.Func, Args: k.Args, Confirm: k.ID, Note: "confirm known finding " + k.ID})
		}
	}
	results := runTasks(P, tasks, *tier, seed, false, id)

	// ---- verdict ----
	exit := 0
	violations := 0
	var agg sx.Stats
	funcs := map[string]bool{}
	var incompletes, errs []string
	var samples []interface{}
	replayed, reproduced := 0, 0
	noReach := 0
	excluded := 0
	var notRun []string
	for i, r := range results {
		if r.Skipped {
			notRun = append(notRun, r.Task.String())
			continue
		}
		s := r.Res.Stats
		agg.Paths += s.Paths
		agg.Steps += s.Steps
		agg.Forks += s.Forks
		agg.Merges += s.Merges
		agg.MergeAborts += s.MergeAborts
		agg.Obligations += s.Obligations
		agg.Trivial += s.Trivial
		agg.SolverUnsat += s.SolverUnsat
		agg.SolverSat += s.SolverSat
		agg.Inconclusive += s.Inconclusive
		agg.ReachWitnesses += s.ReachWitnesses
		agg.FeasQueries += s.FeasQueries
		agg.FeasByModel += s.FeasByModel
		agg.Concretized += s.Concretized
		agg.ByTruthTable += s.ByTruthTable
		for _, f := range r.Res.Funcs {
			funcs[f] = true
		}
		if r.Err != "" {
			errs = append(errs, r.Task.String()+": "+firstLine(r.Err))
			fmt.Printf("ENGINE-ERROR %s: %s\n", r.Task, r.Err)
		}
		wallLimited := false
		for _, inc := range r.Res.Incomplete {
			if strings.HasPrefix(inc, "wall-limit:") {
				wallLimited = true
			}
		}
		for _, inc := range r.Res.Incomplete {
			if i >= nMain && strings.HasPrefix(inc, "stopped after") {
				continue // a confirmation task is expected to find its finding on many paths
			}
			if strings.HasPrefix(inc, "wall-limit:") {
				// thorough tier only: the task is listed as not completed and is not part of the claim
				notRun = append(notRun, r.Task.String()+" (stopped at the per-task wall-clock limit after "+fmt.Sprint(r.Res.Stats.Paths)+" paths)")
				continue
			}
			incompletes = append(incompletes, r.Task.String()+": "+inc)
		}
		if len(samples) < 12 && (i%((len(results)/12)+1) == 0) {
			samples = append(samples, map[string]interface{}{
				"harness": r.Task.String(), "note": r.Task.Note, "paths": s.Paths, "obligations": s.Obligations,
				"decided_by_simplifier": s.Trivial, "solver_unsat": s.SolverUnsat, "solver_sat": s.SolverSat,
				"reach_witnesses": s.ReachWitnesses, "seconds": round2(r.Dur.Seconds()),
			})
		}
		isConfirm := i >= nMain
		if !isConfirm && s.ReachWitnesses == 0 && s.ExcludedByKnown > 0 {
			excluded++
		} else if !isConfirm && !r.Task.NoReach && r.Err == "" && s.ReachWitnesses == 0 && len(r.Res.Findings) == 0 && !wallLimited {
			// vacuity: unless a known finding excludes the whole task
			noReach++
			incompletes = append(incompletes, r.Task.String()+": no reachability witness (vacuous harness?)")
		}
		if isConfirm {
			kf := findKnown(known, r.Task.Confirm)
			ok := false
			for j := range r.Res.Findings {
				if j < len(r.Verdicts) {
					replayed++
					if strings.HasPrefix(r.Verdicts[j], "reproduced") {
						reproduced++
						ok = true
					}
				}
			}
			if ok {
				fmt.Printf("KNOWN-FINDING: property=%s id=%s %s\n", id, kf.ID, kf.What)
			} else {
				fmt.Printf("NOTE: known finding %s no longer reproduces (%d candidate models); mark it fixed in known_findings.json\n", kf.ID, len(r.Res.Findings))
			}
			continue
		}
		for j, f := range r.Res.Findings {
			verdict := "not-replayed"
			if j < len(r.Verdicts) {
				verdict = r.Verdicts[j]
				replayed++
			}
			switch {
			case strings.HasPrefix(verdict, "reproduced"):
				reproduced++
				violations++
				exit = 1
				fmt.Printf("VIOLATION property=%s replay=%s\n", id, r.Replays[j])
				fmt.Printf("  %s: %s at %s (harness %s)\n", f.Kind, f.Msg, f.Where, r.Task)
			default:
				errs = append(errs, fmt.Sprintf("%s: counter-model for %q did not reproduce natively (%s)", r.Task, f.Msg, verdict))
				fmt.Printf("ENGINE-MISMATCH %s: %s: %s — %s\n", r.Task, f.Kind, f.Msg, verdict)
			}
		}
	}
	if exit == 0 && (len(errs) > 0 || len(incompletes) > 0) {
		exit = 2
	}
	for _, s := range incompletes {
		fmt.Println("INCOMPLETE", s)
	}
	if len(notRun) > 0 {
		fmt.Printf("BUDGET: %d of %d tasks were not started within the thorough tier's wall-clock budget (GZV_BUDGET_S, default 2400) or were stopped at the per-task limit (GZV_TASK_LIMIT_S, default 1200) and are not part of this run's claim; they are listed in the evidence\n", len(notRun), len(results))
	}
	var fl []string
	for f := range funcs {
		if strings.Contains(f, modPath) && !strings.Contains(f, "Verif") && !strings.Contains(f, "zzverif") {
			fl = append(fl, strings.ReplaceAll(f, modPath, "gozxing"))
		}
	}
	sort.Strings(fl)
	var fh []string
	for _, r := range results {
		_ = r
	}
	for f := range funcs {
		_ = f
	}
	wall := time.Since(t0).Seconds()
	nontrivial := agg.SolverUnsat + agg.SolverSat + agg.Inconclusive
	ev := &Evidence{
		PropertyID: id, Tier: *tier, Seed: seed, Level: "model_checking", WallS: round2(wall), Violations: violations,
		Coverage: map[string]interface{}{
			"states":                        max1(agg.Paths),
			"transitions":                   max1(int(agg.Steps)),
			"traces_validated_against_impl": replayed,
			"samples":                       samples,
			"evaluations":                   agg.Obligations + agg.FeasQueries,
			"distinct_nontrivial":           nontrivial,
			"rule": "one evaluation = one proof obligation (assertion or implicit panic check) or branch-feasibility query sent to the solver; " +
				"non-trivial = obligations whose negation the engine's own simplifier could not decide and that went to z3/cvc5 (each is a distinct (harness, parameters, path, site))",
			"exhaustive":                            def.Exhaustive != nil && def.Exhaustive(*tier) && exit == 0,
			"harness_tasks":                         len(results),
			"tasks_excluded_by_open_known_findings": excluded,
			"paths":                                 agg.Paths,
			"ssa_instructions":                      agg.Steps,
			"forks":                                 agg.Forks,
			"merges":                                agg.Merges,
			"merge_aborts":                          agg.MergeAborts,
			"obligations":                           agg.Obligations,
			"decided_by_simplifier":                 agg.Trivial,
			"solver_unsat":                          agg.SolverUnsat,
			"solver_sat":                            agg.SolverSat,
			"inconclusive":                          agg.Inconclusive,
			"reach_witnesses":                       agg.ReachWitnesses,
			"feasibility_queries":                   agg.FeasQueries,
			"feasibility_by_model":                  agg.FeasByModel,
			"concretizations":                       agg.Concretized,
			"replays_reproduced":                    reproduced,
			"functions_encoded":                     fl,
			"functions_encoded_n":                   len(fl),
			"bounds":                                def.Bounds(*tier),
			"outside_claim":                         def.Outside,
			"stubs":                                 def.Stubs,
			"solver_time_s": map[string]float64{
				"incremental_z3": round2(float64(atomic.LoadInt64(&solver.NanosIncr)) / 1e9),
				"fresh_total":    round2(float64(atomic.LoadInt64(&solver.NanosFresh)) / 1e9),
			},
			"solver_queries": map[string]int64{
				"incremental": atomic.LoadInt64(&solver.QueriesIncr),
				"fresh":       atomic.LoadInt64(&solver.QueriesFresh),
			},
			"load_and_ssa_build_s":            round2(loadDur.Seconds()),
			"engine_errors":                   errs,
			"incomplete":                      incompletes,
			"tasks_not_started_within_budget": notRun,
			"repo_tree":                       repoTreeID(),
		},
		Assumptions: def.Assumptions,
	}
	_ = fh
	writeEvidence(id, ev)
	fmt.Printf("%s %s: tasks=%d paths=%d obligations=%d (simplifier %d, solver unsat %d, sat %d, inconclusive %d) reach=%d wall=%.1fs exit=%d\n",
		id, *tier, len(results), agg.Paths, agg.Obligations, agg.Trivial, agg.SolverUnsat, agg.SolverSat, agg.Inconclusive, agg.ReachWitnesses, wall, exit)
	return exit
}

func max1(x int) int {
	if x < 1 {
		return 1
	}
	return x
}

func round2(x float64) float64 { return float64(int64(x*100+0.5)) / 100 }

func firstLine(s string) string {
	if i := strings.IndexByte(s, '\n'); i >= 0 {
		return s[:i]
	}
	return s
}

func findKnown(known []KnownFinding, id string) KnownFinding {
	for _, k := range known {
		if k.ID == id {
			return k
		}
	}
	return KnownFinding{ID: id}
}
