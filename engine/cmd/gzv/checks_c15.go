package main

func init() {
	checks["C15"] = &CheckDef{
		Tasks: func(tier string, seed int64) []Task {
			var ts []Task
			thorough := tier == "thorough"
			// registry
			ts = append(ts, Task{Pkg: "common", Func: "VerifC15Registry", Args: ints(-5, 1000), Note: "ECI number free in [-5, 1000]: range error, entry or nothing; entry <-> value, name, aliases, charset"})
			ts = append(ts, Task{Pkg: "common", Func: "VerifC15Registry", Args: ints(900, 999999), Note: "ECI number free in [900, 999999]: format error"})
			ts = append(ts, Task{Pkg: "common", Func: "VerifC15Registry", Args: ints(-1000000, -1)})
			ts = append(ts, Task{Pkg: "common", Func: "VerifC15Names", Args: ints(), Note: "every registered name"})
			// ECI designators in a symbol: all value bits of the 1-, 2- and 3-byte forms free
			for f := int64(0); f <= 2; f++ {
				ts = append(ts, Task{Pkg: "qrcode/decoder", Func: "VerifC15QREci", Args: ints(f), Note: "ECI field form (1, 2, 3 bytes), every value bit free: registered -> decoded, else FormatException"})
			}
			// hinted write -> read with free Latin-1 text (symbolic), RS stubbed
			l1 := [][4]int64{{1, 1, 0, 0}, {2, 1, 0, 3}, {2, 3, 1, 7}, {3, 7, 1, 5}, {3, 5, 0, 2}, {3, 0, 0, 1}, {4, 15, 0, 6}}
			if thorough {
				l1 = append(l1, [4]int64{4, 5, 1, 4}, [4]int64{5, 31, 0, 0}, [4]int64{5, 21, 1, 3}, [4]int64{4, 0, 0, 2})
			}
			for _, a := range l1 {
				ts = append(ts, Task{Pkg: "qrcode", Func: "VerifC15Latin1Free", Args: a[:], Redirect: qrStubs(), Timeout: 600, Note: "n free characters, which of them >= 0xA0 (bit mask), alias form of the hint, mask: CHARACTER_SET=ISO-8859-1 write, hint-less read"})
			}
			// un-hinted UTF-8 text (symbolic, UTF-8 model of the codec)
			for _, e := range [][5]int64{{3, 2, 0, 6, 0}, {3, 3, 1, 7, 0}, {3, 4, 3, 0, 0}} {
				ts = append(ts, Task{Pkg: "qrcode", Func: "VerifC01EndToEnd", Args: e[:], Redirect: qrStubs(), Timeout: 300, Note: "free valid UTF-8 text without hints: read(write(t)) == t"})
			}
			// every registered name / alias with every single-byte code point (concrete, real RS)
			step := int64(32)
			for ni := int64(0); ni < 34; ni++ {
				if thorough {
					ts = append(ts, Task{Pkg: "qrcode", Func: "VerifC15Hinted", Args: ints(ni, 0x20, 0xff), Note: "name index, code point range: every single-byte code point the set defines, concrete"})
				} else {
					lo := 0x20 + (ni*step)%0xe0
					ts = append(ts, Task{Pkg: "qrcode", Func: "VerifC15Hinted", Args: ints(ni, lo, lo+step-1), Note: "name index, code point range (a 32-point window per name in the quick tier; all in thorough), concrete"})
				}
				ts = append(ts, Task{Pkg: "qrcode", Func: "VerifC15Refused", Args: ints(ni), Note: "unrepresentable text and unknown names are refused"})
			}
			leads := []int64{0x81, 0x88, 0x9f, 0xe0, 0xe9, 0xea}
			if thorough {
				leads = nil
				for b := int64(0x81); b <= 0xeb; b++ {
					if b <= 0x9f || b >= 0xe0 {
						leads = append(leads, b)
					}
				}
			}
			for _, b := range leads {
				ts = append(ts, Task{Pkg: "qrcode", Func: "VerifC15Kanji", Args: ints(b, b), Note: "Shift_JIS lead byte: every double-byte code point of that row through Kanji mode (concrete)"})
			}
			for ni := int64(0); ni < 15; ni++ {
				ts = append(ts, Task{Pkg: "qrcode/decoder", Func: "VerifC15DecodeHint", Args: ints(ni, 0x80, 0xff), Note: "decode-side CHARACTER_SET hint on an un-designated byte segment, every high byte, concrete"})
			}
			return ts
		},
		Bounds: func(tier string) map[string]interface{} {
			return map[string]interface{}{
				"registry":  "ECI numbers -1000000 .. 999999 (free), all registered names and aliases",
				"eci_parse": "QR bit stream with an ECI designator whose 7 / 14 / 21 value bits are all free, followed by a two-byte byte-mode segment",
				"symbolic":  "ISO-8859-1 hint with 1..4 (thorough 5) free characters in 0x20..0x7E / 0xA0..0xFF, masks 0..7, both name forms; valid UTF-8 text of 2..4 free bytes without hint (x/text codecs replaced by the validity-preserving models ModelEncode/DecodeLatin1/UTF8)",
				"concrete":  "34 hint names x single-byte code points 0x20..0xFF (32-point window per name in the quick tier, all in thorough) through the real writer (real Reed-Solomon) and decoder; 15 decode-side hints x bytes 0x80..0xFF; Shift_JIS double-byte rows through Kanji mode: these runs are concrete executions inside the engine, not solver-decided",
			}
		},
		Exhaustive:  func(tier string) bool { return false },
		Outside:     []string{"double-byte ranges of GB18030, Big5, EUC-KR (the x/text tables are outside the encoded code; only their single-byte rows are exercised concretely); Shift_JIS double-byte rows other than lead bytes 81, 88, 9F, E0, E9, EA in the quick tier (all rows in thorough, concretely, through Kanji mode)", "the charset guess (StringUtils_guessCharset) beyond valid UTF-8 input and the Latin-1 cases above", "Data Matrix / Aztec ECI handling (C06 covers their totality)"},
		Stubs:       []string{"generateECBytes / correctErrors stubbed in the symbolic tasks (qrStubs)", "golang.org/x/text codecs: native on concrete bytes; Latin-1 / UTF-8 / ASCII models on symbolic bytes"},
		Assumptions: commonAssumptions,
	}
}
