package main

func init() {
	checks["C10"] = &CheckDef{
		Tasks: func(tier string, seed int64) []Task {
			var ts []Task
			mod := []string{"cvc5-bvint", "z3"}
			for _, n := range []int64{7, 11, 12} {
				ts = append(ts, Task{Pkg: "oned", Func: "VerifC10Checksum", Args: ints(n), Fresh: true, Backends: mod, Timeout: 120, Note: "payload digits (all free): UPC-E/EAN-8, UPC-A, EAN-13"})
			}
			for _, n := range []int64{8, 12, 13} {
				for pos := int64(0); pos < n; pos++ {
					ts = append(ts, Task{Pkg: "oned", Func: "VerifC10Substitution", Args: ints(n, pos), Fresh: true, Backends: mod, Timeout: 120, Note: "digits incl. check digit (all free), substituted position; replacement digit free"})
				}
			}
			for _, n := range []int64{7, 12} {
				for pos := int64(0); pos < n; pos++ {
					ts = append(ts, Task{Pkg: "oned", Func: "VerifC10NonDigit", Args: ints(n, pos), Note: "digits, position of a free non-digit byte"})
				}
			}
			for rule := int64(0); rule < 4; rule++ {
				ts = append(ts, Task{Pkg: "oned", Func: "VerifC10ExpandSuppress", Args: ints(rule), Note: "zero-suppression rule; 11 free digits shaped for the rule"})
			}
			for last := int64(0); last < 10; last++ {
				ts = append(ts, Task{Pkg: "oned", Func: "VerifC10UPCEReaderChecksum", Args: ints(last), Fresh: true, Backends: mod, Timeout: 120, Note: "last UPC-E digit (selects the expansion rule); other 7 digits free"})
			}
			ts = append(ts, Task{Pkg: "oned", Func: "VerifC10ParityTables", Note: "6-bit parity pattern free"})
			ts = append(ts, Task{Pkg: "oned", Func: "VerifC10Ext5", Fresh: true, Backends: mod, Timeout: 120, Note: "EAN-5 add-on: five free digits, free 5-bit parity pattern"})
			for _, sc := range []int64{1, 2, 3} {
				ts = append(ts, Task{Pkg: "oned", Func: "VerifC10Ext2", Args: ints(sc), Note: "EAN-2 add-on at sc pixels per module: all 100 values x 4 parity patterns (concrete per path)"})
			}
			// Code 93 C / K and Code 128 mod-103 (character values made concrete per path by solver-enumerated forks)
			for _, a := range [][2]int64{{1, -1}, {1, 0}, {1, 1}, {1, 2}, {2, -1}, {3, -1}} {
				if a[0] == 3 && tier != "thorough" {
					continue
				}
				ts = append(ts, Task{Pkg: "oned", Func: "VerifC10Code93", Args: a[:], Note: "free data characters, position of a substituted character in data+C+K (< 0: none)"})
			}
			if tier == "thorough" {
				for pos := int64(0); pos < 4; pos++ {
					ts = append(ts, Task{Pkg: "oned", Func: "VerifC10Code93", Args: ints(2, pos)})
				}
			}
			for tmpl, nsym := range []int64{12, 6, 10} {
				for pos := int64(0); pos < nsym; pos++ {
					ts = append(ts, Task{Pkg: "oned", Func: "VerifC10Code128", Args: ints(int64(tmpl), pos), Note: "template (mixed A/B, code set C digits, control characters), index of the symbol character replaced by each of the 106 other patterns"})
				}
			}
			seeds := []int64{seed, seed + 1}
			if tier == "thorough" {
				seeds = []int64{seed, seed + 1, seed + 2, seed + 3, seed + 4, seed + 5}
			}
			for kind := int64(0); kind < 3; kind++ {
				n := []int64{13, 8, 8}[kind]
				for pos := int64(0); pos < n-1; pos++ {
					for _, sd := range seeds {
						ts = append(ts, Task{Pkg: "oned", Func: "VerifC10WriterAccepts", Args: ints(kind, pos, sd), Note: "writer (EAN-13, EAN-8, UPC-E), free digit position (and free check digit), seed of the other digits"})
						ts = append(ts, Task{Pkg: "oned", Func: "VerifC10WriterComputes", Args: ints(kind, pos, sd), Note: "writer, free digit position, seed of the other digits"})
					}
				}
			}
			return ts
		},
		Bounds: func(tier string) map[string]interface{} {
			return map[string]interface{}{
				"mod10":   "all 7/11/12 payload digits free at once (check digit formula); every single substitution at every position of 8/12/13-digit numbers with all digits free",
				"upce":    "expand(suppress(n)) for all suppressible 11-digit numbers per rule; UPC-E reader checksum on the expansion for all 8-digit numbers",
				"parity":  "all 64 parity patterns (EAN-13 first digit, UPC-E number system + check digit) against tables typed from the GS1 specification",
				"writers": "EAN-13, EAN-8, UPC-E: one free digit at each position plus free supplied check digit; remaining digits from seeds",
				"addon":   "EAN-5 check value for all 100000 add-ons at once and its parity table",
				"ean2":    "EAN-2 add-on: all 100 values x 4 parity patterns at 1..3 pixels per module through decodeRow",
				"code93":  "C and K of 1..2 (thorough 3) free data characters against the standard's formula; every single substitution in data+C+K of 1 (thorough 2) data characters fails the reader's check",
				"code128": "three templates; every symbol character (start, data, check) replaced by each of the other 105 patterns: DecodeRow gives an error or the original text",
			}
		},
		Exhaustive:  func(tier string) bool { return false },
		Outside:     []string{"Code 128 / Code 93 contents other than the stated templates / lengths", "reading a substituted symbol through the image path (C03)"},
		Stubs:       []string{"mod-10 obligations decided by cvc5 --solve-bv-as-int=sum (z3 as second opinion in the portfolio)"},
		Assumptions: commonAssumptions,
	}
}
