// Package solver drives z3 / cvc5 processes over SMT-LIB2 text.
package solver

import (
	"bufio"
	"context"
	"fmt"
	"io"
	"math"
	"os"
	"os/exec"
	"strconv"
	"strings"
	"sync/atomic"
	"time"
)

type Result int

const (
	Unknown Result = iota
	Sat
	Unsat
)

func (r Result) String() string { return [...]string{"unknown", "sat", "unsat"}[r] }

// Stats are global counters (atomic) for evidence.
var (
	QueriesIncr    int64
	QueriesFresh   int64
	NanosIncr      int64
	NanosFresh     int64
	NanosByBackend [4]int64 // z3, z3-new, cvc5, cvc5-int
	Errors         int64
	NanosGetValue  int64
)

var BackendNames = []string{"z3", "z3-new", "cvc5", "cvc5-bvint"}

// Proc is a persistent incremental solver process.
type Proc struct {
	Kind        string
	cmd         *exec.Cmd
	in          io.WriteCloser
	out         *bufio.Reader
	dead        bool
	Log         io.Writer
	nmark       int
	lastTimeout int
}

func Start(kind string) (*Proc, error) {
	var cmd *exec.Cmd
	switch kind {
	case "z3":
		cmd = exec.Command("z3", "-in", "-smt2")
	case "z3-new":
		cmd = exec.Command("z3-new", "-in", "-smt2")
	case "cvc5":
		cmd = exec.Command("cvc5", "--incremental", "--produce-models", "--lang=smt2")
	default:
		return nil, fmt.Errorf("unknown solver %q", kind)
	}
	in, err := cmd.StdinPipe()
	if err != nil {
		return nil, err
	}
	out, err := cmd.StdoutPipe()
	if err != nil {
		return nil, err
	}
	cmd.Stderr = cmd.Stdout
	if err := cmd.Start(); err != nil {
		return nil, err
	}
	p := &Proc{Kind: kind, cmd: cmd, in: in, out: bufio.NewReaderSize(out, 1<<16)}
	if kind == "cvc5" {
		p.Send("(set-logic ALL)\n")
	} else {
		p.Send("(set-option :produce-models true)\n")
	}
	return p, nil
}

func (p *Proc) Close() {
	if p == nil || p.dead {
		return
	}
	p.dead = true
	p.in.Close()
	p.cmd.Process.Kill()
	p.cmd.Wait()
}

func (p *Proc) Send(s string) {
	if p.dead {
		return
	}
	if p.Log != nil {
		io.WriteString(p.Log, s)
	}
	if _, err := io.WriteString(p.in, s); err != nil {
		p.dead = true
	}
}

// roundTrip sends cmd followed by an echo marker and returns the output lines before the marker.
func (p *Proc) roundTrip(cmd string, timeout time.Duration) ([]string, bool) {
	p.nmark++
	mark := fmt.Sprintf("@@%d@@", p.nmark)
	p.Send(cmd + "\n(echo \"" + mark + "\")\n")
	if p.dead {
		return nil, false
	}
	type res struct {
		lines []string
		ok    bool
	}
	ch := make(chan res, 1)
	go func() {
		var lines []string
		for {
			line, err := p.out.ReadString('\n')
			if err != nil {
				ch <- res{lines, false}
				return
			}
			line = strings.TrimRight(line, "\r\n")
			if strings.Contains(line, mark) {
				ch <- res{lines, true}
				return
			}
			lines = append(lines, line)
		}
	}()
	select {
	case r := <-ch:
		if !r.ok {
			p.dead = true
		}
		return r.lines, r.ok
	case <-time.After(timeout):
		p.Close()
		return nil, false
	}
}

// CheckSatAssuming runs (check-sat-assuming (lits)) with the per-query soft timeout (ms).
func (p *Proc) CheckSatAssuming(lits []string, timeoutMs int) Result {
	t0 := time.Now()
	defer func() {
		atomic.AddInt64(&QueriesIncr, 1)
		atomic.AddInt64(&NanosIncr, int64(time.Since(t0)))
	}()
	if p.dead {
		return Unknown
	}
	var cmd string
	if p.Kind == "cvc5" {
		cmd = fmt.Sprintf("(check-sat-assuming (%s))", strings.Join(lits, " "))
	} else {
		cmd = fmt.Sprintf("(check-sat-assuming (%s))", strings.Join(lits, " "))
		if timeoutMs != p.lastTimeout {
			cmd = fmt.Sprintf("(set-option :timeout %d)\n", timeoutMs) + cmd
			p.lastTimeout = timeoutMs
		}
	}
	lines, ok := p.roundTrip(cmd, time.Duration(timeoutMs)*time.Millisecond+10*time.Second)
	if !ok {
		return Unknown
	}
	return parseVerdict(lines)
}

// CheckSat sends prelude followed by (check-sat).
func (p *Proc) CheckSat(prelude string, timeoutMs int) Result {
	t0 := time.Now()
	defer func() {
		atomic.AddInt64(&QueriesIncr, 1)
		atomic.AddInt64(&NanosIncr, int64(time.Since(t0)))
	}()
	if p.dead {
		return Unknown
	}
	cmd := prelude + "(check-sat)"
	if p.Kind != "cvc5" && timeoutMs != p.lastTimeout {
		cmd = fmt.Sprintf("(set-option :timeout %d)\n", timeoutMs) + cmd
		p.lastTimeout = timeoutMs
	}
	lines, ok := p.roundTrip(cmd, time.Duration(timeoutMs)*time.Millisecond+10*time.Second)
	if !ok {
		return Unknown
	}
	return parseVerdict(lines)
}

func parseVerdict(lines []string) Result {
	r := Unknown
	for _, l := range lines {
		l = strings.TrimSpace(l)
		switch {
		case strings.HasPrefix(l, "(error"):
			atomic.AddInt64(&Errors, 1)
			fmt.Fprintln(os.Stderr, "SOLVER-ERROR:", l)
			return Unknown
		case l == "sat":
			r = Sat
		case l == "unsat":
			r = Unsat
		case l == "unknown" || l == "timeout":
			r = Unknown
		}
	}
	return r
}

// GetValues queries values of the given SMT names after a sat answer.
func (p *Proc) GetValues(names []string) (map[string]uint64, bool) {
	t0 := time.Now()
	defer func() { atomic.AddInt64(&NanosGetValue, int64(time.Since(t0))) }()
	if len(names) == 0 {
		return map[string]uint64{}, true
	}
	lines, ok := p.roundTrip("(get-value ("+strings.Join(names, " ")+"))", 30*time.Second)
	if !ok {
		return nil, false
	}
	return ParseValues(strings.Join(lines, "\n"))
}

func (p *Proc) Alive() bool { return !p.dead }

// ---- one-shot (fresh) problems ----

type FreshResult struct {
	Res     Result
	Values  map[string]uint64
	Backend string
	Dur     time.Duration
}

// SolveFresh runs the script (declarations + assertions, no check-sat) on a portfolio of fresh
// solver processes; the first definitive answer wins. valueNames are fetched on sat.
func SolveFresh(script string, valueNames []string, backends []string, timeout time.Duration) FreshResult {
	t0 := time.Now()
	atomic.AddInt64(&QueriesFresh, 1)
	full := script + "\n(check-sat)\n"
	if len(valueNames) > 0 {
		full += "(get-value (" + strings.Join(valueNames, " ") + "))\n"
	}
	ctx, cancel := context.WithCancel(context.Background())
	defer cancel()
	type out struct {
		r FreshResult
	}
	ch := make(chan FreshResult, len(backends))
	for _, b := range backends {
		go func(b string) {
			ch <- runOne(ctx, b, full, timeout)
		}(b)
	}
	best := FreshResult{Res: Unknown}
	for range backends {
		r := <-ch
		if r.Res != Unknown {
			best = r
			break
		}
	}
	cancel()
	best.Dur = time.Since(t0)
	atomic.AddInt64(&NanosFresh, int64(best.Dur))
	return best
}

func runOne(ctx context.Context, backend, script string, timeout time.Duration) FreshResult {
	t0 := time.Now()
	var cmd *exec.Cmd
	secs := int(timeout.Seconds()) + 1
	pre := "(set-option :produce-models true)\n"
	bi := 0
	switch backend {
	case "z3":
		cmd = exec.CommandContext(ctx, "z3", "-in", "-smt2", fmt.Sprintf("-T:%d", secs))
	case "z3-new":
		bi = 1
		cmd = exec.CommandContext(ctx, "z3-new", "-in", "-smt2", fmt.Sprintf("-T:%d", secs))
	case "cvc5":
		bi = 2
		pre += "(set-logic ALL)\n"
		cmd = exec.CommandContext(ctx, "cvc5", "--lang=smt2", fmt.Sprintf("--tlimit=%d", secs*1000))
	case "cvc5-bvint":
		bi = 3
		pre += "(set-logic ALL)\n"
		cmd = exec.CommandContext(ctx, "cvc5", "--lang=smt2", "--solve-bv-as-int=sum", fmt.Sprintf("--tlimit=%d", secs*1000))
	default:
		return FreshResult{}
	}
	cmd.Stdin = strings.NewReader(pre + script)
	outb, _ := cmd.CombinedOutput()
	atomic.AddInt64(&NanosByBackend[bi], int64(time.Since(t0)))
	if ctx.Err() != nil {
		return FreshResult{}
	}
	s := string(outb)
	lines := strings.Split(s, "\n")
	res := Unknown
	rest := ""
	for i, l := range lines {
		l = strings.TrimSpace(l)
		if strings.HasPrefix(l, "(error") {
			// get-value after unsat legitimately errors; anything before the verdict is fatal
			if res == Unknown {
				atomic.AddInt64(&Errors, 1)
				fmt.Fprintln(os.Stderr, "SOLVER-ERROR("+backend+"):", l)
				return FreshResult{}
			}
			continue
		}
		if res == Unknown && (l == "sat" || l == "unsat") {
			if l == "sat" {
				res = Sat
			} else {
				res = Unsat
			}
			rest = strings.Join(lines[i+1:], "\n")
		}
	}
	fr := FreshResult{Res: res, Backend: backend}
	if res == Sat {
		vals, ok := ParseValues(rest)
		if !ok {
			return FreshResult{}
		}
		fr.Values = vals
	}
	return fr
}

// ---- s-expression value parsing ----

type sx struct {
	atom string
	list []*sx
}

func parseSx(s string, i int) (*sx, int) {
	for i < len(s) && (s[i] == ' ' || s[i] == '\n' || s[i] == '\t' || s[i] == '\r') {
		i++
	}
	if i >= len(s) {
		return nil, i
	}
	if s[i] == '(' {
		n := &sx{}
		i++
		for {
			for i < len(s) && (s[i] == ' ' || s[i] == '\n' || s[i] == '\t' || s[i] == '\r') {
				i++
			}
			if i >= len(s) {
				return nil, i
			}
			if s[i] == ')' {
				return n, i + 1
			}
			c, j := parseSx(s, i)
			if c == nil {
				return nil, j
			}
			n.list = append(n.list, c)
			i = j
		}
	}
	if s[i] == '|' {
		j := strings.IndexByte(s[i+1:], '|')
		if j < 0 {
			return nil, len(s)
		}
		return &sx{atom: s[i : i+j+2]}, i + j + 2
	}
	j := i
	for j < len(s) && !strings.ContainsRune(" \n\t\r()", rune(s[j])) {
		j++
	}
	return &sx{atom: s[i:j]}, j
}

// ParseValues parses the output of (get-value ...): ((name value) ...).
func ParseValues(s string) (map[string]uint64, bool) {
	out := map[string]uint64{}
	i := 0
	any := false
	for {
		n, j := parseSx(s, i)
		if n == nil {
			break
		}
		i = j
		if n.list == nil {
			continue
		}
		for _, pr := range n.list {
			if len(pr.list) != 2 || pr.list[0].list != nil {
				continue
			}
			v, ok := parseVal(pr.list[1])
			if !ok {
				fmt.Fprintf(os.Stderr, "SOLVER-VALUE-PARSE: %s\n", s)
				return nil, false
			}
			out[pr.list[0].atom] = v
			any = true
		}
	}
	return out, any
}

func parseVal(n *sx) (uint64, bool) {
	if n.list == nil {
		a := n.atom
		switch {
		case a == "true":
			return 1, true
		case a == "false":
			return 0, true
		case strings.HasPrefix(a, "#x"):
			v, err := strconv.ParseUint(a[2:], 16, 64)
			return v, err == nil
		case strings.HasPrefix(a, "#b"):
			v, err := strconv.ParseUint(a[2:], 2, 64)
			return v, err == nil
		}
		return 0, false
	}
	l := n.list
	if len(l) >= 2 && l[0].atom == "_" {
		a := l[1].atom
		switch {
		case strings.HasPrefix(a, "bv"):
			v, err := strconv.ParseUint(a[2:], 10, 64)
			return v, err == nil
		case a == "+zero":
			return math.Float64bits(0), true
		case a == "-zero":
			return math.Float64bits(math.Copysign(0, -1)), true
		case a == "+oo":
			return math.Float64bits(math.Inf(1)), true
		case a == "-oo":
			return math.Float64bits(math.Inf(-1)), true
		case a == "NaN":
			return math.Float64bits(math.NaN()), true
		}
		return 0, false
	}
	if len(l) == 4 && l[0].atom == "fp" {
		s, ok1 := parseVal(l[1])
		e, ok2 := parseVal(l[2])
		m, ok3 := parseVal(l[3])
		if !ok1 || !ok2 || !ok3 {
			return 0, false
		}
		return s<<63 | e<<52 | m, true
	}
	return 0, false
}
