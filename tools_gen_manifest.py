#!/usr/bin/env python3
"""Regenerates MANIFEST.json from manifest_src.json (claims) — keeps the file valid and uniform."""
import json, sys
src = json.load(open('/verif/manifest_src.json'))
props = [json.loads(l) for l in open('/verif/properties.jsonl')]
checks, na = [], []
for p in props:
    pid = p['id']
    c = src['claims'].get(pid)
    if c and c.get('claimed'):
        checks.append({
            "property_id": pid,
            "quick_cmd": f"./check {pid} quick",
            "thorough_cmd": f"./check {pid} thorough",
            "evidence_file": f"/verif/evidence/{pid}.json",
            "replay_cmd_template": "./bin/gzv replay {path}",
            "engine": "gosmt",
            "level_claimed": {"category": "model_checking", "text": c['text'], "design_ref": c.get('design_ref', 'DESIGN.md §5 ' + pid)},
            "level_note": c['note'],
            "technique": c.get('technique', "bounded symbolic execution of the Go SSA of the real functions; proof obligations decided by z3/cvc5 (SMT, bit-vectors/floats); counter-models replayed natively"),
        })
    else:
        na.append({"property_id": pid, "reason": (c or {}).get('reason', 'no check registered yet')})
m = {
    "version": 1,
    "setup_cmd": "cd /verif/engine && GOFLAGS=-mod=mod GOPROXY=off GOSUMDB=off GOTOOLCHAIN=local GOWORK=off go build -o /verif/bin/gzv ./cmd/gzv",
    "hooks": {
        "guard": "verif",
        "enable": "none needed: harnesses and the zzverif runtime enter the build through go/packages and `go test -overlay` overlays kept under /verif/harness; nothing guarded lives in /repo",
        "baseline_off_cmd": "cd /repo && go test -json -vet=off -count=1 -timeout 25m ./...",
        "source_commits": [],
        "add_only": True,
    },
    "engines": [{"name": "gosmt", "path": "/verif/engine", "serves_properties": [c['property_id'] for c in checks],
                 "kind_free_text": "symbolic executor for go/ssa (fork by re-execution, in-place state merging), hash-consed bit-vector/float term simplifier, SMT-LIB2 back ends z3 4.8.12 / z3 5.1 / cvc5 1.0.3, native replay of counter-models via go test -overlay"}],
    "checks": checks,
    "notes": src.get('notes', ''),
    "not_applicable": na,
}
json.dump(m, open('/verif/MANIFEST.json', 'w'), indent=1)
print(len(checks), 'checks,', len(na), 'not applicable')
