#!/bin/bash
# usage: tools_seeded_confirm.sh <dir with patch.diff demo_test.go>  — confirms in a scratch worktree
# that the patch compiles, keeps the repository's suite green, and that the demo fails with it and
# passes without it.
set -u
d="$1"
export GOFLAGS=-mod=mod GOPROXY=off GOSUMDB=off GOTOOLCHAIN=local
wt=$(mktemp -d /tmp/seedchk.XXXX); rmdir "$wt"
log=/tmp/seedlog.$(basename $d)
git -C /repo worktree add -q --detach "$wt" HEAD || exit 2
trap 'git -C /repo worktree remove --force "$wt" >/dev/null 2>&1' EXIT
place=$(grep -m1 -o "place in: *[A-Za-z0-9_/.]*" "$d/demo_test.go" | sed 's/place in: *//')
[ -z "$place" ] && place=$(grep -m1 -io "package directory: *[A-Za-z0-9_/.]*" "$d/demo_test.go" | sed 's/[Pp]ackage directory: *//; s#/$##')
race=""; grep -qi "run with -race" "$d/demo_test.go" && race="-race"
[ -z "$place" ] && place="."
[ "$place" = "repo" ] && place="."
[ "$place" = "root" ] && place="."
cp "$d/demo_test.go" "$wt/$place/zz_seed_demo_test.go"
( cd "$wt" && go test $race -vet=off -count=1 -run 'Seed|Demo' ./$place/ >$log.clean 2>&1 ); clean=$?
git -C "$wt" apply "$d/patch.diff" || { echo "RESULT $d patch-does-not-apply"; exit 1; }
( cd "$wt" && go build ./... >$log.build 2>&1 ); build=$?
( cd "$wt" && go test $race -vet=off -count=1 -run 'Seed|Demo' ./$place/ >$log.patched 2>&1 ); patched=$?
rm -f "$wt/$place/zz_seed_demo_test.go"
( cd "$wt" && go test -vet=off -count=1 ./... >$log.suite 2>&1 ); suite=$?
echo "RESULT $d place=$place build=$build suite_with_patch=$suite demo_clean=$clean demo_patched=$patched"
