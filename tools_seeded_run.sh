#!/bin/bash
# usage: tools_seeded_run.sh <seeded dir> <property> [tier]
# Applies the seeded patch to a scratch worktree of /repo, points the check at it (GZV_REPO), and
# reports whether the check raised a reproduced VIOLATION. /repo itself is not touched.
set -u
d="$1"; prop="$2"; tier="${3:-quick}"
wt=$(mktemp -d /tmp/seedrun.XXXX); rmdir "$wt"
git -C /repo worktree add -q --detach "$wt" HEAD || exit 2
trap 'git -C /repo worktree remove --force "$wt" >/dev/null 2>&1' EXIT
git -C "$wt" apply "$d/patch.diff" || { echo "SEEDED $d $prop patch-does-not-apply"; exit 1; }
out=$(mktemp /tmp/seedrun.out.XXXX)
t0=$(date +%s)
( cd /verif && GZV_REPO="$wt" GZV_EVIDENCE_DIR=/tmp/seed_evidence GZV_REPLAY_DIR=/tmp/seed_replays timeout ${SEED_TIMEOUT:-1500} ./bin/gzv check "$prop" --tier "$tier" > "$out" 2>&1 ); rc=$?
t1=$(date +%s)
nv=$(grep -c '^VIOLATION' "$out")
first=$(grep -A1 -m1 '^VIOLATION' "$out" | tail -1 | cut -c1-220)
echo "SEEDED $(basename $d) check=$prop tier=$tier exit=$rc violations=$nv secs=$((t1-t0)) :: $first"
rm -f "$out"
