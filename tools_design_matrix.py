#!/usr/bin/env python3
"""Rewrites DESIGN.md §10.10 (seeded-change catch matrix) from /verif/seeded/*/meta.json."""
import json, glob, re
rows = []
for f in sorted(glob.glob('/verif/seeded/*/meta.json')):
    m = json.load(open(f))
    runs = '; '.join(f"{c}: exit {r['exit']}, {r['violations']} violation(s), {r['seconds']} s" for c, r in sorted(m['check_runs'].items()))
    rows.append(f"| {m['id']} | {m['needs_to_manifest']} | **{m['verdict']}**{(' by ' + ', '.join(m['caught_by'])) if m['caught_by'] else ''} | {runs} | {m.get('history', '')} |")
caught = sum(1 for f in glob.glob('/verif/seeded/*/meta.json') if json.load(open(f))['verdict'] == 'caught')
text = f"""### 10.10 Catch matrix ({caught} of {len(rows)} seeded changes caught by the registered quick checks)

| change | what it needs to manifest | verdict | runs against the patched tree (quick tier) | history / what was strengthened |
|---|---|---|---|---|
""" + '\n'.join(rows) + """

A change counts as caught only when the check exits 1 with a natively reproduced `VIOLATION` line; exit 2
(inconclusive, time-out) is listed as such and not counted.
"""
p = '/verif/DESIGN.md'
s = open(p).read()
a = s.find('### 10.10 Catch matrix')
if a >= 0:
    b = s.find('\n### ', a + 10)
    b2 = s.find('\n## ', a + 10)
    ends = [x for x in (b, b2) if x >= 0]
    e = min(ends) if ends else len(s)
    s = s[:a] + text + s[e:]
else:
    s = s.rstrip('\n') + '\n\n' + text
open(p, 'w').write(s)
print(caught, len(rows))
