#!/bin/sh
# usage: tools_run_all.sh [quick|thorough]  — runs every registered check in /verif against /repo and prints one line per check.
tier="${1:-quick}"
cd /verif || exit 2
for id in $(python3 -c "import json; print(' '.join(c['property_id'] for c in json.load(open('MANIFEST.json'))['checks']))"); do
  s=$(date +%s)
  ./check "$id" "$tier" > "/tmp/runall_$id.log" 2>&1; rc=$?
  echo "RUN $id $tier exit=$rc secs=$(( $(date +%s) - s )) :: $(grep -c '^KNOWN-FINDING' /tmp/runall_$id.log) known; $(tail -1 /tmp/runall_$id.log | cut -c1-160)"
done
