#!/usr/bin/env python3
"""Writes /verif/seeded/<id>/meta.json from the table below plus the results files produced by
tools_seeded_confirm.sh / tools_seeded_run.sh (passed as arguments, later files override earlier)."""
import json, re, sys, os
NEEDS = {
 "C01-a": "QR content that fills a version to the last bit with a bit total divisible by 8 (numeric/alphanumeric at exact capacity): willFit then refuses the smallest version",
 "C01-b": "CHARACTER_SET=Shift_JIS, all-double-byte content containing U+6F3E (Shift_JIS 0xE040): Kanji segment decodes to another character",
 "C04-a": "full-length Reed-Solomon word (k+r = |F|-1) with at least two errors, one of them at index 0",
 "C04-b": "data word whose first parity symbol is 0 (1/|F| of all words): parity shifted by one position",
 "C07-a": "QR version 36 only: one alignment pattern centre misplaced",
 "C07-b": "QR versions with remainder bits (2-6, 14-34) and a mask that is dark at those modules",
 "C10-a": "UPC-E number system 1 with check digit 7 or 8",
 "C10-b": "EAN-5 add-on with d1+d3 > 3(d0+d2+d4) and the difference not a multiple of 10 (1.6 % of values): negative check value",
 "C13-a": "QR content one length above the real version-10 capacity (character count width changes at version 10)",
 "C13-b": "Data Matrix FORCE_NONE with a MAX_SIZE hint wider than tall: lookup stops at the first oversize square",
 "C16-a": "SetRegion spanning >= 2 words whose right edge is a multiple of 32",
 "C16-b": "BitArray grown by AppendBit(s) with >= 32 spare capacity bits, then Reverse",
 "C19-a": "non-square image, a sampled row whose last point lands in [w, w+1)",
 "C19-b": "quadrilateral with exactly one of the closing sums exactly 0.0 (trapezoid with two parallel axis-aligned sides)",
 "C20-a": "a run deviating by exactly maxIndividualVariance * unit width (limit 0.5, even module width)",
 "C20-b": "recorded pattern touching the right end of the row",
 "C02-a": "Data Matrix Base-256 run of 500 bytes or more that does not exactly fill its symbol",
 "C02-b": "message ending in EDIFACT mode on a complete group of four with exactly 3 spare codewords",
 "C03-a": "Code 128 content with a grave accent while code set A is active (after a control character)",
 "C03-b": "Code 39 full-ASCII content containing DEL (0x7f), read in extended mode",
 "C05-a": "an error on the last data codeword of a Reed-Solomon block that carries payload",
 "C05-b": "QR format word for level H, mask 3 with 3 flipped bits per copy",
 "C06-a": "Code 93 symbol cut right after its stop character in a row whose width is a multiple of 32",
 "C06-b": "QR matrix of version >= 7 whose top-right version block is unreadable and whose bottom-left block names another version",
 "C08-a": "Data Matrix 132x132 / 144x144 (62 parity codewords per block): one generator coefficient wrong",
 "C08-b": "Data Matrix pad codeword at a position where the 253-state pseudo-random value reaches exactly 254",
 "C09-a": "any 1-D symbol read upside down: text right, ORIENTATION metadata lost",
 "C09-b": "UPC-A read through NewUPCAReader from a turned image: ORIENTATION metadata lost",
 "C12-a": "1-D writer with MARGIN given as a negative string",
 "C12-b": "QR content whose first non-alphanumeric byte is a backtick (0x60)",
 "C14-a": "1-D rendering with odd margin, odd multiple and odd surplus width (EAN-13, width 105)",
 "C14-b": "Data Matrix requested size equal to the symbol on one axis and larger on the other",
 "C17-a": "image >= 40 px with width a multiple of 8 and height not: bottom height%8 rows never thresholded",
 "C17-b": "RGB luminance Crop on a non-square image: bottom edge checked against the data width",
 "C18-a": "concurrent QR writers: package-level Reed-Solomon encoder with a lazily grown generator cache",
 "C18-b": "concurrent UPC/EAN decodes: package-level scratch counters in findStartGuardPattern",
}
STRENGTHENED = {
 "C16-b": "missed at first (no harness grew an array before Reverse); VerifC16ArrayGrown added",
 "C10-b": "missed at first (EAN-5 not covered), then inconclusive (a back end's sat answer came without a usable model); VerifC10Ext5 added, fresh-solver models are now validated in the evaluator and fall back to the truth table over 4-bit digit inputs",
 "C20-a": "missed at first, then inconclusive (FP query at the exact threshold); VerifC20Boundary added with 4-bit counters so the truth-table fallback decides it",
 "C19-b": "missed at first (ground transforms with one exactly-zero closing sum not enumerated); VerifC19TransformGround added",
 "C04-a": "missed at first (no full-length multi-error task with an error at index 0); VerifC04DecodeZero added — the single task reports the violation in about 4 minutes, the whole quick check on the patched tree needs far longer than on the clean tree",
 "C01-a": "missed by C01 at first (no exact byte-aligned fill among the end-to-end tasks) but caught by C13's WillFit tasks; exact-fill tasks (34 digits at 1-M, 27 at 1-Q) added to C01",
 "C02-a": "missed at first (Base-256 runs stopped below 250 bytes); prefixes of 248 and 504 Base-256 characters added",
 "C03-a": "missed at first (no Code 128 template with code set A active); template 10 added",
 "C05-a": "missed at first (correctErrors was stubbed everywhere); VerifC05Correct runs the real correctErrors with one free error at every position",
 "C06-a": "missed at first (no 1-D DecodeRow on truncated rows); VerifC06Truncated added",
 "C06-b": "missed at first (version blocks never free); VerifC06QRVersionBlocks added",
 "C17-a": "missed at first (no hybrid task with width%8 == 0 and height%8 != 0); sizes 40x41, 41x40, 48x45 added",
 "C01-b": "Kanji mode was outside every claim at first; VerifC15Kanji (C15) now runs every Shift_JIS row of the quick tier's lead bytes; U+6F3E has lead byte E0",
}
confirm, runs = {}, {}
for f in sys.argv[1:]:
    for l in open(f):
        m = re.match(r'RESULT (\S+) (.*)', l)
        if m:
            confirm[os.path.basename(m.group(1))] = m.group(2).strip()
        m = re.match(r'SEEDED (\S+) check=(\S+) tier=(\S+) exit=(\d+) violations=(\d+) secs=(\d+) :: ?(.*)', l)
        if m:
            runs.setdefault(os.path.basename(m.group(1)), {})[m.group(2)] = dict(check=m.group(2), tier=m.group(3), exit=int(m.group(4)), violations=int(m.group(5)), seconds=int(m.group(6)), first_violation=m.group(7).strip()[:300])
for sid, needs in sorted(NEEDS.items()):
    d = '/verif/seeded/' + sid
    if not os.path.isdir(d):
        continue
    old = {}
    if os.path.exists(d + '/meta.json'):
        old = json.load(open(d + '/meta.json'))
    rs = old.get('check_runs', {})
    rs.update(runs.get(sid, {}))
    caught = sorted(c for c, r in rs.items() if r['exit'] == 1 and r['violations'] > 0)
    meta = {
        "id": sid, "breaks_property": sid.split('-')[0], "needs_to_manifest": needs,
        "files": {"patch": "patch.diff", "demonstration": "demo_test.go", "author_notes": "notes.txt"},
        "confirmed_here": confirm.get(sid, old.get('confirmed_here', 'tools_seeded_confirm.sh: build=0 suite_with_patch=0 demo_clean=0 demo_patched=1 (first round, log not kept)')),
        "how_run": "tools_seeded_run.sh <dir> <check> quick — scratch worktree of /repo with the patch applied, GZV_REPO pointing at it; /repo itself untouched",
        "check_runs": rs,
        "caught_by": caught,
        "verdict": "caught" if caught else ("inconclusive (exit 2 / timeout): not counted as caught" if any(r['exit'] not in (0, 1) for r in rs.values()) else "missed"),
    }
    if sid in old.get('notes', {}) if isinstance(old.get('notes'), dict) else False:
        pass
    if sid in STRENGTHENED:
        meta['history'] = STRENGTHENED[sid]
    json.dump(meta, open(d + '/meta.json', 'w'), indent=1)
    print(sid, meta['verdict'], caught)
