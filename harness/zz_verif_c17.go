package gozxing

// C17(a) — luminance views (crop / invert / rotate) against a naive 2-D model: pixel values are
// free, rectangles and row indices are enumerated concretely (in and out of range).

import (
	"image"
	"image/color"

	zv "github.com/makiuchi-d/gozxing/zzverif"
)

type verifView struct {
	src LuminanceSource
	m   [][]byte // model[y][x] of the view
	// the underlying image and the view's offset in it (crop rectangles may reach outside the
	// view as long as they stay inside the underlying image: that is what the property states)
	base       [][]byte
	offL, offT int
}

func verifBase(kind, w, h int) verifView {
	lum := zv.Bytes(w * h)
	m := make([][]byte, h)
	for y := range m {
		m[y] = lum[y*w : (y+1)*w]
	}
	var src LuminanceSource
	switch kind {
	case 0:
		src = &RGBLuminanceSource{LuminanceSourceBase{w, h}, append([]byte(nil), lum...), w, h, 0, 0}
	case 1:
		s, err := NewPlanarYUVLuminanceSource(append([]byte(nil), lum...), w, h, 0, 0, w, h, false)
		zv.Assert(err == nil, "full-frame YUV source")
		src = s
	default:
		src = &GoImageLuminanceSource{&RGBLuminanceSource{LuminanceSourceBase{w, h}, append([]byte(nil), lum...), w, h, 0, 0}}
	}
	return verifView{src: src, m: m, base: m}
}

// verifCheckView: GetMatrix, GetRow for every row incl. one outside on each side, sizes.
func verifCheckView(v verifView, what string) {
	h := len(v.m)
	w := 0
	if h > 0 {
		w = len(v.m[0])
	}
	zv.Assert(v.src.GetWidth() == w && v.src.GetHeight() == h, what+": view size")
	mat := v.src.GetMatrix()
	ok := len(mat) >= w*h
	zv.Assert(ok, what+": GetMatrix too short")
	for y := 0; y < h; y++ {
		for x := 0; x < w; x++ {
			ok = zv.And(ok, mat[y*w+x] == v.m[y][x])
		}
	}
	zv.Assert(ok, what+": GetMatrix differs from the model")
	for y := -1; y <= h; y++ {
		row, err := v.src.GetRow(y, nil)
		if y < 0 || y >= h {
			zv.Assert(err != nil, what+": a row outside the view must be an error")
			continue
		}
		zv.Assert(err == nil && len(row) >= w, what+": GetRow failed inside the view")
		ok := true
		for x := 0; x < w; x++ {
			ok = zv.And(ok, row[x] == v.m[y][x])
		}
		zv.Assert(ok, what+": GetRow differs from the same row of the matrix")
	}
}

// verifCropOf: the model of v.Crop(l, t, cw, ch): valid iff the origin is non-negative and the
// rectangle stays inside the underlying image.
func verifCropOf(v verifView, l, t, cw, ch int) (verifView, bool) {
	H, W := len(v.base), len(v.base[0])
	if l < 0 || t < 0 || cw < 1 || ch < 1 || v.offL+l+cw > W || v.offT+t+ch > H {
		return verifView{}, false
	}
	out := make([][]byte, ch)
	for y := range out {
		out[y] = v.base[v.offT+t+y][v.offL+l : v.offL+l+cw]
	}
	return verifView{m: out, base: v.base, offL: v.offL + l, offT: v.offT + t}, true
}

func verifCropModel(m [][]byte, l, t, cw, ch int) ([][]byte, bool) {
	nv, ok := verifCropOf(verifView{m: m, base: m}, l, t, cw, ch)
	return nv.m, ok
}

// VerifC17Crop: every rectangle with origin in [-2, w] and size in [1, w+2] applied to a first view
// that is itself the crop (l0, t0, w0, h0) of a free w x h image (l0 < 0 means: no first crop).
func VerifC17Crop(kind, w, h, l0, t0, w0, h0 int) {
	v := verifBase(kind, w, h)
	if l0 >= 0 {
		c, err := v.src.Crop(l0, t0, w0, h0)
		nv, ok := verifCropOf(v, l0, t0, w0, h0)
		zv.Assert(ok && err == nil, "first crop inside the image must succeed")
		nv.src = c
		v = nv
		verifCheckView(v, "first crop")
	}
	for l := -2; l <= w; l++ {
		for t := -2; t <= h; t++ {
			for cw := 1; cw <= w+2; cw++ {
				for ch := 1; ch <= h+2; ch++ {
					nv, ok := verifCropOf(v, l, t, cw, ch)
					c, err := v.src.Crop(l, t, cw, ch)
					zv.Assert((err == nil) == ok, "Crop must accept exactly the rectangles with a non-negative origin inside the underlying image")
					if err == nil {
						nv.src = c
						verifCheckView(nv, "crop")
					}
				}
			}
		}
	}
	zv.Reach("c17crop")
}

// VerifC17CropOne: a single (possibly invalid) rectangle on a cropped view — confirmation task
// for a finding and a cheap regression probe.
func VerifC17CropOne(kind, w, h, l0, t0, w0, h0, l, t, cw, ch int) {
	v := verifBase(kind, w, h)
	if l0 >= 0 {
		c, err := v.src.Crop(l0, t0, w0, h0)
		nv, _ := verifCropOf(v, l0, t0, w0, h0)
		zv.Assert(err == nil, "first crop")
		nv.src = c
		v = nv
	}
	nv, ok := verifCropOf(v, l, t, cw, ch)
	c, err := v.src.Crop(l, t, cw, ch)
	zv.Assert((err == nil) == ok, "Crop must accept exactly the rectangles with a non-negative origin inside the underlying image")
	if err == nil && ok {
		nv.src = c
		verifCheckView(nv, "crop")
	}
	zv.Reach("c17cropone")
}

// VerifC17Invert: inversion maps v to 255-v, commutes with crop, and is undone by a second one.
func VerifC17Invert(kind, w, h int) {
	v := verifBase(kind, w, h)
	inv := v.src.Invert()
	im := make([][]byte, h)
	for y := range im {
		im[y] = make([]byte, w)
		for x := range im[y] {
			im[y][x] = 255 - v.m[y][x]
		}
	}
	verifCheckView(verifView{src: inv, m: im}, "inverted")
	verifCheckView(verifView{src: inv.Invert(), m: v.m}, "twice inverted")
	if w >= 2 && h >= 2 {
		c, err := inv.Crop(1, 1, w-1, h-1)
		m, _ := verifCropModel(im, 1, 1, w-1, h-1)
		zv.Assert(err == nil, "crop of an inverted view")
		verifCheckView(verifView{src: c, m: m}, "crop of inverted")
	}
	zv.Reach("c17invert")
}

// VerifC17Rotate: counter-clockwise quarter turns of a (possibly cropped) Go-image source:
// new(x', y') = old(w-1-y', x'); four turns restore the view.
func VerifC17Rotate(w, h, l0, t0, w0, h0 int) {
	v := verifBase(2, w, h)
	if l0 >= 0 {
		c, err := v.src.Crop(l0, t0, w0, h0)
		m, _ := verifCropModel(v.m, l0, t0, w0, h0)
		zv.Assert(err == nil, "first crop")
		v = verifView{src: c, m: m}
	}
	cur := v
	for turn := 1; turn <= 4; turn++ {
		zv.Assert(cur.src.IsRotateSupported(), "rotation supported")
		r, err := cur.src.RotateCounterClockwise()
		zv.Assert(err == nil, "rotate")
		oh, ow := len(cur.m), len(cur.m[0])
		nm := make([][]byte, ow)
		for ny := 0; ny < ow; ny++ {
			nm[ny] = make([]byte, oh)
			for nx := 0; nx < oh; nx++ {
				nm[ny][nx] = cur.m[nx][ow-1-ny]
			}
		}
		cur = verifView{src: r, m: nm}
		verifCheckView(cur, "rotated")
	}
	verifCheckView(verifView{src: cur.src, m: v.m}, "four quarter turns")
	zv.Reach("c17rotate")
}

// ---------- C17(b): binarisers on bilevel images ----------

func verifBilevel(w, h int) (LuminanceSource, [][]bool) {
	lum := make([]byte, w*h)
	black := make([][]bool, h)
	for y := 0; y < h; y++ {
		black[y] = zv.Bools(w)
		for x := 0; x < w; x++ {
			if black[y][x] {
				lum[y*w+x] = 0
			} else {
				lum[y*w+x] = 255
			}
		}
	}
	return &RGBLuminanceSource{LuminanceSourceBase{w, h}, lum, w, h, 0, 0}, black
}

// VerifC17GlobalMatrix: a free bilevel w x h image through GlobalHistogramBinarizer.GetBlackMatrix:
// exactly the black pixels, or NotFoundException.
func VerifC17GlobalMatrix(w, h int) {
	src, black := verifBilevel(w, h)
	bm, err := NewGlobalHistgramBinarizer(src).GetBlackMatrix()
	zv.Assert((bm != nil) != (err != nil), "matrix xor error")
	if err != nil {
		_, isNF := err.(NotFoundException)
		zv.Assert(isNF, "only NotFoundException (no contrast) may be reported")
	} else {
		zv.Assert(bm.GetWidth() == w && bm.GetHeight() == h, "matrix size")
		for y := 0; y < h; y++ {
			ok := true
			for x := 0; x < w; x++ {
				ok = zv.And(ok, bm.Get(x, y) == black[y][x])
			}
			zv.Assert(ok, "a bilevel image must binarise to exactly its black pixels")
		}
	}
	zv.Reach("globalmatrix")
}

// VerifC17HybridMatrix: the same through HybridBinarizer (local method for images >= 40 x 40).
func VerifC17HybridMatrix(w, h int) {
	src, black := verifBilevel(w, h)
	bm, err := NewHybridBinarizer(src).GetBlackMatrix()
	zv.Assert((bm != nil) != (err != nil), "matrix xor error")
	if err != nil {
		_, isNF := err.(NotFoundException)
		zv.Assert(isNF, "only NotFoundException (no contrast) may be reported")
	} else {
		zv.Assert(bm.GetWidth() == w && bm.GetHeight() == h, "matrix size")
		for y := 0; y < h; y++ {
			ok := true
			for x := 0; x < w; x++ {
				ok = zv.And(ok, bm.Get(x, y) == black[y][x])
			}
			zv.Assert(ok, "a bilevel image must binarise to exactly its black pixels")
		}
	}
	zv.Reach("hybridmatrix")
}

// VerifC17HybridBlock: w x h (>= 40) bilevel image whose 8x8 blocks are uniformly black or white
// (one free bit per block), except block (bx, by) whose first k pixels (raster order) are free; HybridBinarizer's local
// thresholding must reproduce the image exactly.
func VerifC17HybridBlock(w, h, bx, by, k int) {
	lum := make([]byte, w*h)
	black := make([][]bool, h)
	for y := range black {
		black[y] = make([]bool, w)
	}
	for y0 := 0; y0 < h; y0 += 8 {
		for x0 := 0; x0 < w; x0 += 8 {
			free := x0/8 == bx && y0/8 == by
			blk := zv.Bool()
			for y := y0; y < y0+8 && y < h; y++ {
				for x := x0; x < x0+8 && x < w; x++ {
					b := blk
					if free && (y-y0)*8+(x-x0) < k {
						b = zv.Bool()
					}
					black[y][x] = b
					if b {
						lum[y*w+x] = 0
					} else {
						lum[y*w+x] = 255
					}
				}
			}
		}
	}
	src := &RGBLuminanceSource{LuminanceSourceBase{w, h}, lum, w, h, 0, 0}
	bm, err := NewHybridBinarizer(src).GetBlackMatrix()
	zv.Assert(err == nil && bm != nil, "the local method never fails")
	if err == nil {
		zv.Assert(bm.GetWidth() == w && bm.GetHeight() == h, "matrix size")
		for y := 0; y < h; y++ {
			ok := true
			for x := 0; x < w; x++ {
				ok = zv.And(ok, bm.Get(x, y) == black[y][x])
			}
			zv.Assert(ok, "a bilevel image must binarise to exactly its black pixels")
		}
	}
	zv.Reach("hybridblock")
}

// VerifC17GlobalRow: row y of a free bilevel w x h image through GlobalHistogramBinarizer.GetBlackRow
// against the sharpened-threshold model (interior pixels exactly the black pixels; for w >= 3 the two
// edge pixels are never set); reuse > 0 passes a dirty row buffer of w+reuse-1 bits.
func VerifC17GlobalRow(w, h, y, reuse int) {
	src, black := verifBilevel(w, h)
	var buf *BitArray
	if reuse > 0 {
		buf = NewBitArray(w + reuse - 1)
		for i := 0; i < buf.GetSize(); i++ {
			if zv.Bool() {
				buf.Set(i)
			}
		}
	}
	row, err := NewGlobalHistgramBinarizer(src).GetBlackRow(y, buf)
	zv.Assert((row != nil) != (err != nil), "row xor error")
	if y < 0 || y >= h {
		zv.Assert(err != nil, "a row outside the image is an error")
	} else if err != nil {
		_, isNF := err.(NotFoundException)
		zv.Assert(isNF, "only NotFoundException (no contrast) may be reported")
	} else {
		zv.Assert(row.GetSize() >= w, "row size")
		ok := true
		for x := 0; x < w; x++ {
			want := black[y][x]
			if w >= 3 && (x == 0 || x == w-1) {
				want = false
			}
			ok = zv.And(ok, row.Get(x) == want)
		}
		zv.Assert(ok, "black row differs from the sharpened-threshold model")
		for x := w; x < row.GetSize(); x++ {
			zv.Assert(!row.Get(x), "bits beyond the width must be cleared")
		}
	}
	zv.Reach("globalrow")
}

// ---------- C17(c): luminance from colour ----------

// VerifC17FromPixels: NewRGBLuminanceSource on free 0xRRGGBB ints: green-favouring average, exact on greys.
func VerifC17FromPixels(w, h int) {
	px := make([]int, w*h)
	m := make([][]byte, h)
	for y := 0; y < h; y++ {
		m[y] = make([]byte, w)
		for x := 0; x < w; x++ {
			r, g, b := zv.Byte(), zv.Byte(), zv.Byte()
			hi := zv.Byte() // the alpha byte is ignored
			px[y*w+x] = int(hi)<<24 | int(r)<<16 | int(g)<<8 | int(b)
			m[y][x] = byte((int(r) + 2*int(g) + int(b)) / 4)
			zv.Assert(zv.Implies(zv.And(r == g, g == b), m[y][x] == r), "model: grey is exact")
		}
	}
	verifCheckView(verifView{src: NewRGBLuminanceSource(w, h, px), m: m}, "from pixels")
	zv.Reach("c17frompixels")
}

// VerifC17FromImage: NewLuminanceSourceFromImage on an image whose bounds do not start at the
// origin. kind 0: *image.Gray with free pixels (exact); kind 1: *image.NRGBA with free grey level
// and alpha in {0, 255} per pixel (transparent reads as white, opaque grey exactly);
// kind 2: *image.RGBA (RGBA64Image path) likewise.
func VerifC17FromImage(kind, w, h int) {
	rect := image.Rect(2, 3, 2+w, 3+h)
	m := make([][]byte, h)
	for y := range m {
		m[y] = make([]byte, w)
	}
	var img image.Image
	switch kind {
	case 0:
		g := image.NewGray(rect)
		for y := 0; y < h; y++ {
			for x := 0; x < w; x++ {
				v := zv.Byte()
				g.SetGray(2+x, 3+y, color.Gray{Y: v})
				m[y][x] = v
			}
		}
		img = g
	case 1:
		g := image.NewNRGBA(rect)
		for y := 0; y < h; y++ {
			for x := 0; x < w; x++ {
				v := zv.Byte()
				if zv.Bool() {
					g.SetNRGBA(2+x, 3+y, color.NRGBA{v, v, v, 255})
					m[y][x] = v
				} else {
					g.SetNRGBA(2+x, 3+y, color.NRGBA{v, v, v, 0})
					m[y][x] = 255
				}
			}
		}
		img = g
	default:
		g := image.NewRGBA(rect)
		for y := 0; y < h; y++ {
			for x := 0; x < w; x++ {
				v := zv.Byte()
				if zv.Bool() {
					g.SetRGBA(2+x, 3+y, color.RGBA{v, v, v, 255})
					m[y][x] = v
				} else {
					g.SetRGBA(2+x, 3+y, color.RGBA{0, 0, 0, 0})
					m[y][x] = 255
				}
			}
		}
		img = g
	}
	verifCheckView(verifView{src: NewLuminanceSourceFromImage(img), m: m}, "from image")
	zv.Reach("c17fromimage")
}

// VerifC17YUV: a planar-YUV source over a free dw x dh luminance plane (plus chroma bytes that must
// be ignored) restricted to the rectangle (l, t, w, h), optionally mirrored horizontally: rows and
// matrix against the model, then every crop of that view; a rectangle outside the plane is refused
// by the constructor.
func VerifC17YUV(dw, dh, l, t, w, h, rev int) {
	data := zv.Bytes(dw*dh + dw*dh/2)
	fits := l >= 0 && t >= 0 && w >= 0 && h >= 0 && l+w <= dw && t+h <= dh
	src, err := NewPlanarYUVLuminanceSource(append([]byte(nil), data...), dw, dh, l, t, w, h, rev != 0)
	zv.Assert((err == nil) == fits, "the constructor accepts exactly the rectangles inside the plane")
	if err != nil || w == 0 || h == 0 {
		zv.Reach("c17yuv-refused")
		return
	}
	// the model of the underlying plane as the source sees it (mirroring is applied inside the rectangle)
	base := make([][]byte, dh)
	for y := range base {
		base[y] = append([]byte(nil), data[y*dw:(y+1)*dw]...)
	}
	if rev != 0 {
		for y := t; y < t+h; y++ {
			for x := 0; x < w; x++ {
				base[y][l+x] = data[y*dw+l+(w-1-x)]
			}
		}
	}
	v, ok := verifCropOf(verifView{m: base, base: base}, l, t, w, h)
	zv.Assert(ok, "model")
	v.src = src
	verifCheckView(v, "yuv view")
	for cl := -1; cl <= w; cl++ {
		for ct := -1; ct <= h; ct++ {
			for cw := 1; cw <= w+1; cw++ {
				for ch := 1; ch <= h+1; ch++ {
					nv, ok := verifCropOf(v, cl, ct, cw, ch)
					c, err := v.src.Crop(cl, ct, cw, ch)
					zv.Assert((err == nil) == ok, "Crop must accept exactly the rectangles with a non-negative origin inside the underlying image")
					if err == nil && ok {
						nv.src = c
						verifCheckView(nv, "crop of yuv view")
					}
				}
			}
		}
	}
	zv.Reach("c17yuv")
}
