package gozxing

// C16 — BitMatrix / BitArray behave as plain bit containers.
// One-step refinement from an arbitrary valid state: the word array is free (subject to the
// representation invariant), one operation runs, and the result is compared with a naive model.

import (
	zv "github.com/makiuchi-d/gozxing/zzverif"
)

// ---------- BitMatrix ----------

// verifMatrix returns a w×h matrix in an arbitrary valid state (padding bits zero).
func verifMatrix(w, h int) *BitMatrix {
	b, err := NewBitMatrix(w, h)
	if err != nil {
		zv.Fail("NewBitMatrix failed for positive dimensions")
	}
	zv.Assert(b.GetWidth() == w && b.GetHeight() == h && b.GetRowSize() == (w+31)/32, "constructor dimensions")
	for i := range b.bits {
		b.bits[i] = zv.Uint32()
	}
	if w%32 != 0 {
		// padding bits are zero in every valid state: mask them off (rather than assume it) so that
		// the invariant is syntactically visible
		keep := ^(^uint32(0) << uint(w%32))
		for y := 0; y < h; y++ {
			b.bits[y*b.rowSize+b.rowSize-1] &= keep
		}
	}
	return b
}

// verifAbs is the abstraction function, defined on the representation.
func verifAbs(b *BitMatrix) [][]bool {
	m := make([][]bool, b.height)
	for y := range m {
		m[y] = make([]bool, b.width)
		for x := range m[y] {
			m[y][x] = (b.bits[y*b.rowSize+x/32]>>uint(x%32))&1 != 0
		}
	}
	return m
}

// verifInv is the representation invariant.
func verifInv(b *BitMatrix) bool {
	if b.rowSize != (b.width+31)/32 || len(b.bits) != b.rowSize*b.height {
		return false
	}
	ok := true
	if b.width%32 != 0 {
		pad := ^uint32(0) << uint(b.width%32)
		for y := 0; y < b.height; y++ {
			ok = zv.And(ok, b.bits[y*b.rowSize+b.rowSize-1]&pad == 0)
		}
	}
	return ok
}

func verifSame(b *BitMatrix, m [][]bool) bool {
	if b.height != len(m) || b.width != len(m[0]) {
		return false
	}
	got := verifAbs(b)
	ok := true
	for y := range m {
		for x := range m[y] {
			ok = zv.And(ok, got[y][x] == m[y][x])
		}
	}
	return ok
}

func verifCopy(m [][]bool) [][]bool {
	c := make([][]bool, len(m))
	for y := range m {
		c[y] = append([]bool(nil), m[y]...)
	}
	return c
}

// model queries
func verifModelRect(m [][]bool) (left, top, right, bottom int, any bool) {
	h, w := len(m), len(m[0])
	left, top, right, bottom = w, h, -1, -1
	for y := 0; y < h; y++ {
		for x := 0; x < w; x++ {
			if m[y][x] {
				any = true
				if x < left {
					left = x
				}
				if x > right {
					right = x
				}
				if y < top {
					top = y
				}
				if y > bottom {
					bottom = y
				}
			}
		}
	}
	return
}

func verifCheckQueries(b *BitMatrix, m [][]bool) {
	h, w := len(m), len(m[0])
	// Get everywhere, and outside
	ok := true
	for y := 0; y < h; y++ {
		for x := 0; x < w; x++ {
			ok = zv.And(ok, b.Get(x, y) == m[y][x])
		}
	}
	zv.Assert(ok, "Get disagrees with the model")
	zv.Assert(!b.Get(-1, 0) && !b.Get(w, 0) && !b.Get(0, -1) && !b.Get(0, h), "Get outside the matrix must be false")
	// enclosing rectangle
	l, t, r, bt, any := verifModelRect(m)
	rect := b.GetEnclosingRectangle()
	if rect == nil {
		zv.Assert(!any, "GetEnclosingRectangle nil for a non-empty matrix")
	} else {
		zv.Assert(any, "GetEnclosingRectangle non-nil for an empty matrix")
		zv.Assert(len(rect) == 4, "GetEnclosingRectangle length")
		zv.Assert(rect[0] == l, "GetEnclosingRectangle left disagrees with the model")
		zv.Assert(rect[1] == t, "GetEnclosingRectangle top disagrees with the model")
		zv.Assert(rect[2] == r-l+1, "GetEnclosingRectangle width disagrees with the model")
		zv.Assert(rect[3] == bt-t+1, "GetEnclosingRectangle height disagrees with the model")
	}
	// top-left: first set bit in row-major order
	tlx, tly, found := 0, 0, false
	for y := 0; y < h; y++ {
		for x := 0; x < w; x++ {
			if m[y][x] && !found {
				tlx, tly, found = x, y, true
			}
		}
	}
	tl := b.GetTopLeftOnBit()
	if tl == nil {
		zv.Assert(!found, "GetTopLeftOnBit nil for a non-empty matrix")
	} else {
		zv.Assert(found && len(tl) == 2, "GetTopLeftOnBit non-nil for an empty matrix")
		zv.Assert(tl[0] == tlx, "GetTopLeftOnBit x disagrees with the model")
		zv.Assert(tl[1] == tly, "GetTopLeftOnBit y disagrees with the model")
	}
	// bottom-right: last set bit in row-major order
	brx, bry := 0, 0
	for y := 0; y < h; y++ {
		for x := 0; x < w; x++ {
			if m[y][x] {
				brx, bry = x, y
			}
		}
	}
	br := b.GetBottomRightOnBit()
	if br == nil {
		zv.Assert(!found, "GetBottomRightOnBit nil for a non-empty matrix")
	} else {
		zv.Assert(found && len(br) == 2, "GetBottomRightOnBit non-nil for an empty matrix")
		zv.Assert(br[0] == brx, "GetBottomRightOnBit x disagrees with the model")
		zv.Assert(br[1] == bry, "GetBottomRightOnBit y disagrees with the model")
	}
}

// VerifC16MatrixQueries: every query on an arbitrary valid state.
func VerifC16MatrixQueries(w, h int) {
	b := verifMatrix(w, h)
	m := verifAbs(b)
	verifCheckQueries(b, m)
	// image view
	ok := true
	for y := 0; y < h; y++ {
		for x := 0; x < w; x++ {
			r, g, bl, a := b.At(x, y).RGBA()
			black := zv.And(zv.And(r == 0, g == 0), zv.And(bl == 0, a == 0xffff))
			white := zv.And(zv.And(r == 0xffff, g == 0xffff), zv.And(bl == 0xffff, a == 0xffff))
			ok = zv.And(ok, black == m[y][x])
			ok = zv.And(ok, white == !m[y][x])
		}
	}
	zv.Assert(ok, "At (image view) disagrees with the model")
	bd := b.Bounds()
	zv.Assert(bd.Min.X == 0 && bd.Min.Y == 0 && bd.Max.X == w && bd.Max.Y == h, "Bounds")
	zv.Reach("queries")
}

// VerifC16MatrixPointOps: Set / Unset / Flip at every position.
func VerifC16MatrixPointOps(w, h, op int) {
	b0 := verifMatrix(w, h)
	m := verifAbs(b0)
	for y := 0; y < h; y++ {
		for x := 0; x < w; x++ {
			b := &BitMatrix{b0.width, b0.height, b0.rowSize, append([]uint32(nil), b0.bits...)}
			switch op {
			case 0:
				b.Set(x, y)
			case 1:
				b.Unset(x, y)
			default:
				b.Flip(x, y)
			}
			got := verifAbs(b)
			ok := true
			for yy := 0; yy < h; yy++ {
				for xx := 0; xx < w; xx++ {
					want := m[yy][xx]
					if xx == x && yy == y {
						switch op {
						case 0:
							want = true
						case 1:
							want = false
						default:
							want = !want
						}
					}
					ok = zv.And(ok, got[yy][xx] == want)
				}
			}
			zv.Assert(ok, "Set/Unset/Flip changed the wrong cells")
			zv.Assert(verifInv(b), "representation invariant broken by a point operation")
		}
	}
	zv.Reach("pointops")
}

// VerifC16MatrixWholeOps: Clear / FlipAll / Xor / Rotate180 / Rotate90 followed by all queries.
func VerifC16MatrixWholeOps(w, h, op int) {
	b := verifMatrix(w, h)
	m := verifAbs(b)
	var want [][]bool
	switch op {
	case 0: // Clear
		b.Clear()
		want = verifCopy(m)
		for y := range want {
			for x := range want[y] {
				want[y][x] = false
			}
		}
	case 1: // FlipAll
		zv.Except("C16-flipall-padding", w%32 != 0)
		b.FlipAll()
		want = verifCopy(m)
		for y := range want {
			for x := range want[y] {
				want[y][x] = !want[y][x]
			}
		}
	case 2: // Xor with another arbitrary valid matrix of the same size
		o := verifMatrix(w, h)
		om := verifAbs(o)
		err := b.Xor(o)
		zv.Assert(err == nil, "Xor of equal-sized matrices failed")
		want = verifCopy(m)
		for y := range want {
			for x := range want[y] {
				want[y][x] = want[y][x] != om[y][x]
			}
		}
		zv.Assert(verifSame(o, om), "Xor modified its argument")
	case 3: // Rotate180
		zv.Except("C16-rotate180-word-aligned", w%32 == 0)
		b.Rotate180()
		want = verifCopy(m)
		for y := range want {
			for x := range want[y] {
				want[y][x] = m[h-1-y][w-1-x]
			}
		}
	case 4: // Rotate90 (counter-clockwise): new(x', y') = old(w-1-y', x')  with new size h×w
		b.Rotate90()
		zv.Assert(b.GetWidth() == h && b.GetHeight() == w, "Rotate90 dimensions")
		want = make([][]bool, w)
		for ny := 0; ny < w; ny++ {
			want[ny] = make([]bool, h)
			for nx := 0; nx < h; nx++ {
				want[ny][nx] = m[nx][w-1-ny]
			}
		}
	}
	zv.Assert(verifSame(b, want), "whole-matrix operation disagrees with the model")
	// Queries are verified from every valid state by VerifC16MatrixQueries; here the state and the
	// invariant those queries rely on are enough (induction over histories).
	zv.Assert(verifInv(b), "representation invariant broken (padding bits set): whole-word queries will misreport")
	zv.Reach("wholeops")
}

// VerifC16MatrixXorMismatch: Xor with different dimensions is an error and changes nothing.
func VerifC16MatrixXorMismatch(w, h, w2, h2 int) {
	b := verifMatrix(w, h)
	m := verifAbs(b)
	o := verifMatrix(w2, h2)
	err := b.Xor(o)
	zv.Assert((err == nil) == (w == w2 && h == h2), "Xor dimension check")
	if err != nil {
		zv.Assert(verifSame(b, m), "failed Xor modified the matrix")
	}
	zv.Reach("xormismatch")
}

// VerifC16MatrixSetRegion: every horizontal extent (left, width), in and out of range, combined
// with every vertical extent when the matrix is small and with the boundary ones otherwise.
// The rectangle is concrete in each iteration, the contents are free.
func VerifC16MatrixSetRegion(w, h int) {
	b0 := verifMatrix(w, h)
	m := verifAbs(b0)
	type vext struct{ top, rh int }
	var vs []vext
	if w*h <= 64 {
		for top := -1; top <= h; top++ {
			for rh := 0; rh <= h+1; rh++ {
				vs = append(vs, vext{top, rh})
			}
		}
	} else {
		vs = []vext{{-1, 1}, {0, 0}, {0, 1}, {0, h}, {0, h + 1}, {1, h}, {h - 1, 1}, {h - 1, 2}, {h, 1}, {1, h - 1}}
	}
	// horizontal extents: all of them for narrow matrices; for wide ones every pair of positions
	// drawn from the ends and the neighbourhood of each 32-bit word boundary
	var pos []int
	if w <= 40 {
		for p := -1; p <= w+1; p++ {
			pos = append(pos, p)
		}
	} else {
		seen := map[int]bool{}
		add := func(p int) {
			if p >= -1 && p <= w+1 && !seen[p] {
				seen[p] = true
				pos = append(pos, p)
			}
		}
		for _, p := range []int{-1, 0, 1, 2, w - 2, w - 1, w, w + 1} {
			add(p)
		}
		for k := 32; k <= w+1; k += 32 {
			add(k - 1)
			add(k)
			add(k + 1)
		}
	}
	for _, left := range pos {
		for _, right := range pos {
			rw := right - left
			if rw < 0 || left > w {
				continue
			}
			for _, v := range vs {
				top, rh := v.top, v.rh
				b := &BitMatrix{b0.width, b0.height, b0.rowSize, append([]uint32(nil), b0.bits...)}
				err := b.SetRegion(left, top, rw, rh)
				valid := left >= 0 && top >= 0 && rw >= 1 && rh >= 1 && left+rw <= w && top+rh <= h
				zv.Assert((err == nil) == valid, "SetRegion accepts exactly the rectangles inside the matrix")
				got := verifAbs(b)
				ok := true
				for y := 0; y < h; y++ {
					for x := 0; x < w; x++ {
						in := err == nil && x >= left && x < left+rw && y >= top && y < top+rh
						ok = zv.And(ok, got[y][x] == zv.Or(m[y][x], in))
					}
				}
				zv.Assert(ok, "SetRegion disagrees with the model")
				zv.Assert(verifInv(b), "representation invariant broken by SetRegion")
			}
		}
	}
	zv.Reach("setregion")
}

// VerifC16MatrixRows: GetRow into nil / smaller / larger arrays, SetRow.
func VerifC16MatrixRows(w, h int) {
	b := verifMatrix(w, h)
	m := verifAbs(b)
	for y := 0; y < h; y++ {
		r := b.GetRow(y, nil)
		zv.Assert(r.GetSize() == w, "GetRow(nil) size")
		ok := true
		for x := 0; x < w; x++ {
			ok = zv.And(ok, r.Get(x) == m[y][x])
		}
		zv.Assert(ok, "GetRow(nil) disagrees with the model")
		zv.Assert(verifArrInv(r), "GetRow result breaks the BitArray invariant")
	}
	// reuse of a larger, dirty array
	big := verifArray(w + 7)
	r := b.GetRow(0, big)
	ok := true
	for x := 0; x < w; x++ {
		ok = zv.And(ok, r.Get(x) == m[0][x])
	}
	zv.Assert(ok, "GetRow(reused array) disagrees with the model")
	for x := w; x < r.GetSize(); x++ {
		ok = zv.And(ok, !r.Get(x))
	}
	zv.Assert(ok, "GetRow(reused array) leaves stale bits beyond the width")
	// a too-small array is replaced
	if w > 1 {
		small := verifArray(w - 1)
		r2 := b.GetRow(h-1, small)
		zv.Assert(r2.GetSize() == w, "GetRow(small array) size")
	}
	// SetRow with an arbitrary row of exactly width bits
	row := verifArray(w)
	rm := verifArrAbs(row)
	y := h - 1
	b.SetRow(y, row)
	want := verifCopy(m)
	copy(want[y], rm)
	zv.Assert(verifSame(b, want), "SetRow disagrees with the model")
	zv.Assert(verifInv(b), "representation invariant broken by SetRow")
	zv.Reach("rows")
}

// VerifC16MatrixStringRoundTrip: Parse(ToString(m)) == m.
func VerifC16MatrixStringRoundTrip(w, h int) {
	b := verifMatrix(w, h)
	m := verifAbs(b)
	s := b.ToString("X ", "  ")
	p, err := ParseStringToBitMatrix(s, "X ", "  ")
	zv.Assert(err == nil && p != nil, "ParseStringToBitMatrix failed on ToString output")
	zv.Assert(p.GetWidth() == w && p.GetHeight() == h, "round-trip dimensions")
	zv.Assert(verifSame(p, m), "Parse(ToString(m)) != m")
	zv.Reach("string")
}

// VerifC16MatrixBoolMap: ParseBoolMapToBitMatrix.
func VerifC16MatrixBoolMap(w, h int) {
	img := make([][]bool, h)
	for y := range img {
		img[y] = zv.Bools(w)
	}
	b, err := ParseBoolMapToBitMatrix(img)
	zv.Assert(err == nil && b != nil, "ParseBoolMapToBitMatrix failed")
	zv.Assert(verifSame(b, img), "ParseBoolMapToBitMatrix disagrees with its input")
	zv.Assert(verifInv(b), "invariant")
	zv.Reach("boolmap")
}

// VerifC16MatrixConstructor: dimensions < 1 are refused.
func VerifC16MatrixConstructor() {
	w, h := zv.IntRange(-2, 40), zv.IntRange(-2, 3)
	wc, hc := zv.Concrete(w), zv.Concrete(h)
	b, err := NewBitMatrix(wc, hc)
	zv.Assert((err == nil) == (wc >= 1 && hc >= 1), "NewBitMatrix accepts exactly positive dimensions")
	zv.Assert((b != nil) == (err == nil), "matrix xor error")
	if b != nil {
		ok := true
		for y := 0; y < hc; y++ {
			for x := 0; x < wc; x++ {
				ok = ok && !b.Get(x, y)
			}
		}
		zv.Assert(ok, "new matrix not empty")
	}
	zv.Reach("ctor")
}

// ---------- BitArray ----------

// verifArray returns a BitArray of n bits in an arbitrary valid state.
func verifArray(n int) *BitArray {
	b := NewBitArray(n)
	zv.Assert(b.GetSize() == n && len(b.bits) == (n+31)/32, "NewBitArray shape")
	for i := range b.bits {
		b.bits[i] = zv.Uint32()
	}
	if n%32 != 0 {
		b.bits[len(b.bits)-1] &= ^(^uint32(0) << uint(n%32))
	}
	return b
}

func verifArrAbs(b *BitArray) []bool {
	m := make([]bool, b.size)
	for i := range m {
		m[i] = (b.bits[i/32]>>uint(i%32))&1 != 0
	}
	return m
}

func verifArrInv(b *BitArray) bool {
	if len(b.bits)*32 < b.size {
		return false
	}
	ok := true
	for i := b.size; i < len(b.bits)*32; i++ {
		ok = zv.And(ok, (b.bits[i/32]>>uint(i%32))&1 == 0)
	}
	return ok
}

func verifArrSame(b *BitArray, m []bool) bool {
	if b.size != len(m) {
		return false
	}
	got := verifArrAbs(b)
	ok := true
	for i := range m {
		ok = zv.And(ok, got[i] == m[i])
	}
	return ok
}

// VerifC16ArrayQueries: Get, GetNextSet, GetNextUnset, IsRange, GetSizeInBytes, String on an
// arbitrary valid state; positions are enumerated concretely, contents are free.
func VerifC16ArrayQueries(n int) {
	b := verifArray(n)
	m := verifArrAbs(b)
	ok := true
	for i := 0; i < n; i++ {
		ok = zv.And(ok, b.Get(i) == m[i])
	}
	zv.Assert(ok, "Get disagrees with the model")
	zv.Assert(b.GetSizeInBytes() == (n+7)/8, "GetSizeInBytes")
	// next set / unset from every position, including positions at and beyond the size
	ns, nu := n, n // model answers for the current 'from', maintained backwards
	for from := n + 2; from >= 0; from-- {
		if from < n {
			if m[from] {
				ns = from
			} else {
				nu = from
			}
		}
		zv.Assert(b.GetNextSet(from) == ns, "GetNextSet disagrees with the model")
		zv.Assert(b.GetNextUnset(from) == nu, "GetNextUnset disagrees with the model")
	}
	// String form
	str := b.String()
	want := make([]byte, 0, n+n/8+1)
	for i := 0; i < n; i++ {
		if i%8 == 0 {
			want = append(want, ' ')
		}
		if m[i] {
			want = append(want, 'X')
		} else {
			want = append(want, '.')
		}
	}
	zv.Assert(str == string(want), "String disagrees with the model")
	zv.Assert(verifArrSame(b, m), "a query modified the array")
	zv.Reach("arrayqueries")
}

// VerifC16ArrayIsRange: every (start, end) pair in and out of range, both values.
func VerifC16ArrayIsRange(n int) {
	b := verifArray(n)
	m := verifArrAbs(b)
	for s := -1; s <= n+1; s++ {
		allT, allF := true, true // over [s, e)
		for e := -1; e <= n+1; e++ {
			if e > s && s >= 0 && e-1 < n {
				allT = zv.And(allT, m[e-1])
				allF = zv.And(allF, !m[e-1])
			}
			valid := e >= s && s >= 0 && e <= n
			rt, errT := b.IsRange(s, e, true)
			rf, errF := b.IsRange(s, e, false)
			zv.Assert((errT == nil) == valid && (errF == nil) == valid, "IsRange accepts exactly 0 <= start <= end <= size")
			if valid {
				zv.Assert(rt == allT, "IsRange(true) disagrees with the model")
				zv.Assert(rf == allF, "IsRange(false) disagrees with the model")
			}
		}
	}
	zv.Assert(verifArrSame(b, m), "IsRange modified the array")
	zv.Reach("isrange")
}

// VerifC16ArrayToBytes: byte export of every aligned and unaligned window.
func VerifC16ArrayToBytes(n int) {
	b := verifArray(n)
	m := verifArrAbs(b)
	if n < 8 {
		zv.Reach("tobytes")
		return
	}
	nb := n / 8
	for off := 0; off <= n-nb*8; off++ {
		out := make([]byte, nb+2)
		b.ToBytes(off, out, 1, nb)
		ok := true
		for i := 0; i < nb; i++ {
			var want byte
			for j := 0; j < 8; j++ {
				if m[off+i*8+j] {
					want |= 1 << uint(7-j)
				}
			}
			ok = zv.And(ok, out[1+i] == want)
		}
		zv.Assert(ok, "ToBytes disagrees with the model")
		zv.Assert(out[0] == 0 && out[nb+1] == 0, "ToBytes wrote outside its window")
	}
	zv.Reach("tobytes")
}

// VerifC16ArrayPointOps: Set / Flip at every position.
func VerifC16ArrayPointOps(n, op int) {
	b0 := verifArray(n)
	m := verifArrAbs(b0)
	for i := 0; i < n; i++ {
		b := &BitArray{append([]uint32(nil), b0.bits...), b0.size}
		if op == 0 {
			b.Set(i)
		} else {
			b.Flip(i)
		}
		got := verifArrAbs(b)
		ok := true
		for k := 0; k < n; k++ {
			want := m[k]
			if k == i {
				if op == 0 {
					want = true
				} else {
					want = !want
				}
			}
			ok = zv.And(ok, got[k] == want)
		}
		zv.Assert(ok, "Set/Flip changed the wrong bits")
		zv.Assert(verifArrInv(b), "invariant broken by Set/Flip")
	}
	zv.Reach("arraypoint")
}

// VerifC16ArraySetBulk: a whole word at a word-aligned index.
func VerifC16ArraySetBulk(n int) {
	if n == 0 {
		zv.Reach("setbulk")
		return
	}
	b := verifArray(n)
	m := verifArrAbs(b)
	wi := zv.Concrete(zv.IntRange(0, (n-1)/32))
	word := zv.Uint32()
	// contract: no bit at or beyond size
	if wi == (n-1)/32 && n%32 != 0 {
		zv.Assume(word&(^uint32(0)<<uint(n%32)) == 0)
	}
	b.SetBulk(wi*32, word)
	got := verifArrAbs(b)
	ok := true
	for k := 0; k < n; k++ {
		want := m[k]
		if k/32 == wi {
			want = (word>>uint(k%32))&1 != 0
		}
		ok = zv.And(ok, got[k] == want)
	}
	zv.Assert(ok, "SetBulk disagrees with the model")
	zv.Assert(verifArrInv(b), "invariant broken by SetBulk")
	zv.Reach("setbulk")
}

// VerifC16ArraySetRange: every (start, end) pair in and out of range; Clear.
func VerifC16ArraySetRange(n int) {
	b0 := verifArray(n)
	m := verifArrAbs(b0)
	for s := -1; s <= n+1; s++ {
		for e := -1; e <= n+1; e++ {
			b := &BitArray{append([]uint32(nil), b0.bits...), b0.size}
			err := b.SetRange(s, e)
			valid := e >= s && s >= 0 && e <= n
			zv.Assert((err == nil) == valid, "SetRange accepts exactly 0 <= start <= end <= size")
			got := verifArrAbs(b)
			ok := true
			for k := 0; k < n; k++ {
				in := err == nil && k >= s && k < e
				ok = zv.And(ok, got[k] == zv.Or(m[k], in))
			}
			zv.Assert(ok, "SetRange disagrees with the model")
			zv.Assert(verifArrInv(b), "invariant broken by SetRange")
		}
	}
	b0.Clear()
	ok := true
	for k := 0; k < n; k++ {
		ok = zv.And(ok, !b0.Get(k))
	}
	zv.Assert(ok && b0.GetSize() == n, "Clear")
	zv.Reach("setrange")
}

// VerifC16ArrayAppend: AppendBit, AppendBits, AppendBitArray from an arbitrary valid state.
func VerifC16ArrayAppend(n, k int) {
	b := verifArray(n)
	m := verifArrAbs(b)
	// AppendBit
	bit := zv.Bool()
	b.AppendBit(bit)
	m = append(m, bit)
	zv.Assert(verifArrSame(b, m), "AppendBit disagrees with the model")
	zv.Assert(verifArrInv(b), "invariant broken by AppendBit")
	// AppendBits(value, k): most significant of the k bits first
	value := int(zv.Uint32())
	err := b.AppendBits(value, k)
	zv.Assert(err == nil, "AppendBits refused a bit count in 0..32")
	for j := k - 1; j >= 0; j-- {
		m = append(m, (value>>uint(j))&1 != 0)
	}
	zv.Assert(verifArrSame(b, m), "AppendBits disagrees with the model")
	zv.Assert(verifArrInv(b), "invariant broken by AppendBits")
	// AppendBitArray
	o := verifArray(k)
	om := verifArrAbs(o)
	b.AppendBitArray(o)
	m = append(m, om...)
	zv.Assert(verifArrSame(b, m), "AppendBitArray disagrees with the model")
	zv.Assert(verifArrInv(b), "invariant broken by AppendBitArray")
	zv.Assert(b.AppendBits(0, 33) != nil && b.AppendBits(0, -1) != nil, "AppendBits accepts only 0..32 bits")
	zv.Reach("append")
}

// VerifC16ArrayFromEmpty: growth from NewEmptyBitArray by single bits.
func VerifC16ArrayFromEmpty(n int) {
	b := NewEmptyBitArray()
	bitsIn := zv.Bools(n)
	for _, v := range bitsIn {
		b.AppendBit(v)
	}
	zv.Assert(verifArrSame(b, bitsIn), "bits appended to an empty array read back differently")
	zv.Assert(verifArrInv(b), "invariant")
	zv.Reach("fromempty")
}

// VerifC16ArrayXor: equal sizes combine bitwise; different sizes are refused.
func VerifC16ArrayXor(n, k int) {
	b := verifArray(n)
	m := verifArrAbs(b)
	o := verifArray(k)
	om := verifArrAbs(o)
	err := b.Xor(o)
	zv.Assert((err == nil) == (n == k), "Xor size check")
	if err == nil {
		ok := true
		got := verifArrAbs(b)
		for i := 0; i < n; i++ {
			ok = zv.And(ok, got[i] == (m[i] != om[i]))
		}
		zv.Assert(ok, "Xor disagrees with the model")
	} else {
		zv.Assert(verifArrSame(b, m), "failed Xor modified the array")
	}
	zv.Assert(verifArrInv(b), "invariant broken by Xor")
	zv.Reach("arrayxor")
}

// VerifC16ArrayXorEmpty: arrays of size 0 from both constructors.
func VerifC16ArrayXorEmpty() {
	a, b := NewEmptyBitArray(), NewBitArray(0)
	zv.Except("C16-xor-empty-constructors", true)
	zv.Assert(a.Xor(b) == nil, "Xor of two empty arrays")
	zv.Assert(b.Xor(a) == nil, "Xor of two empty arrays")
	zv.Reach("xorempty")
}

// VerifC16ArrayReverse.
func VerifC16ArrayReverse(n int) {
	b := verifArray(n)
	m := verifArrAbs(b)
	zv.Except("C16-reverse-size0", n == 0)
	b.Reverse()
	want := make([]bool, n)
	for i := range want {
		want[i] = m[n-1-i]
	}
	zv.Assert(verifArrSame(b, want), "Reverse disagrees with the model")
	zv.Assert(verifArrInv(b), "invariant broken by Reverse")
	zv.Reach("reverse")
}

// VerifC16ArrayGrown: two-step histories from the constructors: an array grown from
// NewEmptyBitArray by appends (style 0: single bits, 1: 8-bit chunks, 2: AppendBitArray of a
// NewBitArray-built array) holds whatever spare capacity the growth policy leaves; every query and
// Reverse / Xor / SetRange / Clear must still agree with the model afterwards.
func VerifC16ArrayGrown(n, style int) {
	b := NewEmptyBitArray()
	m := zv.Bools(n)
	switch style {
	case 0:
		for _, v := range m {
			b.AppendBit(v)
		}
	case 1:
		i := 0
		for ; i+8 <= n; i += 8 {
			v := 0
			for j := 0; j < 8; j++ {
				if m[i+j] {
					v |= 1 << uint(7-j)
				}
			}
			b.AppendBits(v, 8)
		}
		for ; i < n; i++ {
			b.AppendBit(m[i])
		}
	default:
		o := NewBitArray(n)
		for i, v := range m {
			if v {
				o.Set(i)
			}
		}
		b.AppendBitArray(o)
	}
	zv.Assert(verifArrSame(b, m), "grown array differs from the bits appended")
	zv.Assert(verifArrInv(b), "invariant after growth")
	// queries
	ns, nu := n, n
	for from := n + 1; from >= 0; from-- {
		if from < n {
			if m[from] {
				ns = from
			} else {
				nu = from
			}
		}
		zv.Assert(b.GetNextSet(from) == ns, "GetNextSet on a grown array")
		zv.Assert(b.GetNextUnset(from) == nu, "GetNextUnset on a grown array")
	}
	if n >= 8 {
		out := make([]byte, n/8)
		b.ToBytes(0, out, 0, n/8)
		ok := true
		for i := range out {
			var want byte
			for j := 0; j < 8; j++ {
				if m[i*8+j] {
					want |= 1 << uint(7-j)
				}
			}
			ok = zv.And(ok, out[i] == want)
		}
		zv.Assert(ok, "ToBytes on a grown array")
	}
	// Xor with an array of the same size from the other constructor
	o := verifArray(n)
	om := verifArrAbs(o)
	zv.Assert(b.Xor(o) == nil, "Xor of equal sizes refused")
	x := make([]bool, n)
	for i := range x {
		x[i] = m[i] != om[i]
	}
	zv.Assert(verifArrSame(b, x), "Xor on a grown array")
	// Reverse
	if n > 0 {
		b.Reverse()
		r := make([]bool, n)
		for i := range r {
			r[i] = x[n-1-i]
		}
		zv.Assert(verifArrSame(b, r), "Reverse on a grown array disagrees with the model")
		zv.Assert(verifArrInv(b), "invariant after Reverse on a grown array")
		// and appending afterwards still lands at the end
		b.AppendBit(true)
		r = append(r, true)
		zv.Assert(verifArrSame(b, r), "AppendBit after Reverse on a grown array")
	}
	zv.Reach("grown")
}
