package datamatrix

// C14 — rendering geometry of the Data Matrix writer.

import (
	qrencoder "github.com/makiuchi-d/gozxing/qrcode/encoder"
	zv "github.com/makiuchi-d/gozxing/zzverif"
)

// VerifC14DM: a w x h symbol (free modules) at boundary-relevant requested sizes: requested size
// when the symbol fits both ways, bare symbol otherwise; largest integer scale; centred.
func VerifC14DM(w, h int) {
	m := qrencoder.NewByteMatrix(w, h)
	mod := make([][]bool, h)
	for y := 0; y < h; y++ {
		mod[y] = zv.Bools(w)
		for x, v := range mod[y] {
			m.SetBool(x, y, v)
		}
	}
	sizes := func(n int) []int { return []int{0, 1, n - 1, n, n + 1, 2*n - 1, 2 * n, 2*n + 1, 3*n + 2, 8 * n} }
	for _, rw := range sizes(w) {
		for _, rh := range sizes(h) {
			out := convertByteMatrixToBitMatrix(m, rw, rh)
			zv.Assert(out != nil, "render failed")
			fits := rw >= w && rh >= h
			ow, oh, s, padx, pady := w, h, 1, 0, 0
			if fits {
				ow, oh = rw, rh
				s = ow / w
				if oh/h < s {
					s = oh / h
				}
				padx, pady = (ow-w*s)/2, (oh-h*s)/2
			}
			zv.Assert(out.GetWidth() == ow && out.GetHeight() == oh, "output size: requested when the symbol fits both ways, else the bare symbol")
			for y := 0; y < oh; y++ {
				ok := true
				for x := 0; x < ow; x++ {
					want := false
					if x >= padx && x < padx+w*s && y >= pady && y < pady+h*s {
						want = mod[(y-pady)/s][(x-padx)/s]
					}
					ok = zv.And(ok, out.Get(x, y) == want)
				}
				zv.Assert(ok, "pixel row differs from the scaled, centred module matrix")
			}
		}
	}
	zv.Reach("c14dm")
}
