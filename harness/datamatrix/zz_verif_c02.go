package datamatrix

// C02(a,b) — Data Matrix high-level encodation round trip on free Latin-1 content: the real
// EncodeHighLevel (all six mode encoders, look-ahead) against the real bit-stream parser.

import (
	"strings"

	"github.com/makiuchi-d/gozxing"
	"github.com/makiuchi-d/gozxing/datamatrix/decoder"
	"github.com/makiuchi-d/gozxing/datamatrix/encoder"
	zv "github.com/makiuchi-d/gozxing/zzverif"
)

// concrete prefixes that latch each encodation (with different residues modulo the packing unit)
var verifPrefixes = []string{
	"",                  // 0: ASCII
	"AIMAIMAIM",         // 1: C40 (upper case run)
	"aimaimaimaim",      // 2: Text (lower case run)
	"ABC>ABC123>AB",     // 3: X12
	".A.C1.3.DATA.123D", // 4: EDIFACT-friendly
	"«äöüé»", // 5: Base 256 (Latin-1 upper half run)
	"AIMAIMAIMA",        // 6: C40, other residue
	"123456",            // 7: digit pairs
	"ABC>ABC123>ABCDE",  // 8: X12, other residue
	strings.Repeat("«äöüé»", 41) + "«ä", // 9: Base 256 run of 248 (+ free + tail: straddles the 249/250 length-field switch)
	strings.Repeat("«äöüé»", 84), // 10: Base 256 run of 504: two-byte length field with a second byte that is not the remainder alone
	"\r    ", // 11: X12 with two characters of the second triplet pending when the free character comes
	"\r   ",  // 12: X12, one character pending
}

// verifLatin1 builds the Go string (UTF-8) for n free ISO-8859-1 code points.
func verifLatin1(n int) string {
	s, _ := verifLatin1H(n)
	return s
}

// verifLatin1H also reports whether some character is in the upper half (>= 0x80).
func verifLatin1H(n int) (string, bool) {
	var b []byte
	high := false
	for i := 0; i < n; i++ {
		c := zv.Byte()
		// 0xC2/0xC3 are left out so that the known raw-byte rendering of upper-shift characters
		// (see verifSameText) can never be mistaken for a UTF-8 lead byte
		zv.Assume(c != 0xC2 && c != 0xC3)
		high = zv.Or(high, c >= 0x80)
		if c < 0x80 {
			b = append(b, c)
		} else {
			b = append(b, 0xC0|c>>6, 0x80|c&0x3F)
		}
	}
	return string(b), high
}

// VerifC02HighLevel: prefix + n free Latin-1 characters + tail.
func VerifC02HighLevel(prefix, n, tail, shape int) {
	free, high := verifLatin1H(n)
	msg := verifPrefixes[prefix] + free + []string{"", "A", "12", "é", "1>AAAAA*>"}[tail]
	// Known finding: characters >= 0x80 written with an upper shift (ASCII, C40, Text) are read
	// back as raw bytes instead of UTF-8 text; inside a Base-256 run they are fine.
	high = zv.Or(high, prefix == 5 || prefix >= 9 || tail == 3)
	if len(msg) == 0 {
		zv.Reach("c02hl-empty")
		return
	}
	// Known finding: X12 encodation meeting a lower-case letter before its triplet is complete
	// refuses the text (after the fix: before it, characters were silently lost).
	lower := false
	if prefix == 11 && tail == 4 && n == 1 && len(free) == 1 {
		lower = zv.And(free[0] >= 'a', free[0] <= 'z')
	}
	zv.Except("C02-x12-mid-triplet-refused", lower)
	enc, err := encoder.EncodeHighLevel(msg, encoder.SymbolShapeHint(shape), nil, nil)
	zv.Assert(err == nil && len(enc) > 0, "a short ISO-8859-1 message that fits was refused")
	if err != nil {
		return
	}
	si, e0 := encoder.SymbolInfo_Lookup(len(enc), encoder.SymbolShapeHint(shape), nil, nil, true)
	zv.Assert(e0 == nil && si.GetDataCapacity() == len(enc), "the codeword stream does not fill a symbol exactly")
	res, e2 := decoder.DecodedBitStreamParser_decode(enc)
	zv.Assert(e2 == nil && res != nil, "the codewords written were not parsed")
	if e2 == nil {
		verifSameText(res.GetText(), msg, high)
	}
	zv.Reach("c02hl")
}

// VerifC02Writer: the whole writer with free content (through ECC, placement, drawing) and the
// whole matrix decoder; Reed-Solomon generation/correction stubbed (pairing still checked).
func VerifC02Writer(n, shape int) {
	msg, high := verifLatin1H(n)
	hints := map[gozxing.EncodeHintType]interface{}{gozxing.EncodeHintType_DATA_MATRIX_SHAPE: encoder.SymbolShapeHint(shape)}
	img, err := NewDataMatrixWriter().Encode(msg, gozxing.BarcodeFormat_DATA_MATRIX, 0, 0, hints)
	zv.Assert((img != nil) != (err != nil), "Encode must return exactly one of matrix and error")
	if n == 0 {
		zv.Assert(err != nil, "empty content must be refused")
		zv.Reach("c02writer-empty")
		return
	}
	zv.Assert(err == nil, "a short ISO-8859-1 message was refused")
	if err != nil {
		return
	}
	zv.Assert(img.GetWidth() >= 10 && img.GetHeight() >= 8, "image smaller than the smallest symbol")
	res, e2 := decoder.NewDecoder().Decode(img)
	zv.Assert(e2 == nil && res != nil, "the symbol written was not decoded")
	if e2 == nil {
		verifSameText(res.GetText(), msg, high)
	}
	zv.Reach("c02writer")
}

// verifLatin1Bytes maps text to one byte per character: a well-formed two-byte UTF-8 sequence
// with lead 0xC2/0xC3 is one ISO-8859-1 character, every other byte stands for itself.
func verifLatin1Bytes(t string) []byte {
	var out []byte
	for i := 0; i < len(t); i++ {
		c := t[i]
		if (c == 0xC2 || c == 0xC3) && i+1 < len(t) && t[i+1]&0xC0 == 0x80 {
			out = append(out, (c&3)<<6|t[i+1]&0x3F)
			i++
		} else {
			out = append(out, c)
		}
	}
	return out
}

// verifSameText: the decoded text must equal the message. For messages with characters >= 0x80
// there is a listed known finding (upper-shift characters come back as raw bytes): the region
// "equal as ISO-8859-1 characters but not as UTF-8 text" is that finding; any other difference is
// reported.
func verifSameText(got, msg string, high bool) {
	exact := got == msg
	if high {
		a, b := verifLatin1Bytes(got), verifLatin1Bytes(msg)
		same := len(a) == len(b)
		if same {
			for i := range a {
				same = zv.And(same, a[i] == b[i])
			}
		}
		zv.Assert(same, "decoded text differs from the message even as ISO-8859-1 characters")
		zv.Except("C02-dm-upper-shift-raw-latin1", !exact)
	}
	zv.Assert(exact, "decoded text differs from the message encoded")
}
