package encoder

// Independent reference: ISO/IEC 16022 ECC 200 symbol attributes (Table 7), typed from the
// standard: symbol rows x columns, data region size and count, data / error codewords,
// interleaved blocks. NOT derived from the repository's tables.

type refDMRow struct {
	rows, cols       int // symbol size including finder/clock tracks
	regRows, regCols int // data region size (modules)
	hRegions, vRegions int
	data, ecc        int
	blocks           int
}

var refDM = []refDMRow{
	{10, 10, 8, 8, 1, 1, 3, 5, 1},
	{12, 12, 10, 10, 1, 1, 5, 7, 1},
	{14, 14, 12, 12, 1, 1, 8, 10, 1},
	{16, 16, 14, 14, 1, 1, 12, 12, 1},
	{18, 18, 16, 16, 1, 1, 18, 14, 1},
	{20, 20, 18, 18, 1, 1, 22, 18, 1},
	{22, 22, 20, 20, 1, 1, 30, 20, 1},
	{24, 24, 22, 22, 1, 1, 36, 24, 1},
	{26, 26, 24, 24, 1, 1, 44, 28, 1},
	{32, 32, 14, 14, 2, 2, 62, 36, 1},
	{36, 36, 16, 16, 2, 2, 86, 42, 1},
	{40, 40, 18, 18, 2, 2, 114, 48, 1},
	{44, 44, 20, 20, 2, 2, 144, 56, 1},
	{48, 48, 22, 22, 2, 2, 174, 68, 1},
	{52, 52, 24, 24, 2, 2, 204, 84, 2},
	{64, 64, 14, 14, 4, 4, 280, 112, 2},
	{72, 72, 16, 16, 4, 4, 368, 144, 4},
	{80, 80, 18, 18, 4, 4, 456, 192, 4},
	{88, 88, 20, 20, 4, 4, 576, 224, 4},
	{96, 96, 22, 22, 4, 4, 696, 272, 4},
	{104, 104, 24, 24, 4, 4, 816, 336, 6},
	{120, 120, 18, 18, 6, 6, 1050, 408, 6},
	{132, 132, 20, 20, 6, 6, 1304, 496, 8},
	{144, 144, 22, 22, 6, 6, 1558, 620, 10},
	// rectangular
	{8, 18, 6, 16, 1, 1, 5, 7, 1},
	{8, 32, 6, 14, 2, 1, 10, 11, 1},
	{12, 26, 10, 24, 1, 1, 16, 14, 1},
	{12, 36, 10, 16, 2, 1, 22, 18, 1},
	{16, 36, 14, 16, 2, 1, 32, 24, 1},
	{16, 48, 14, 22, 2, 1, 49, 28, 1},
}

// refDMSelfCheck: identities of the standard: the mapping matrix holds exactly the codewords.
func refDMSelfCheck() bool {
	ok := len(refDM) == 30
	for _, r := range refDM {
		ok = ok && r.rows == r.vRegions*(r.regRows+2) && r.cols == r.hRegions*(r.regCols+2)
		area := r.regRows * r.vRegions * r.regCols * r.hRegions
		ok = ok && area/8 == r.data+r.ecc
		ok = ok && r.ecc%r.blocks == 0
	}
	return ok
}

// refDMOrder: the standard's capacity order; for equal capacity the square symbol first.
func refDMOrder() []refDMRow {
	out := append([]refDMRow(nil), refDM...)
	for i := 1; i < len(out); i++ {
		for j := i; j > 0; j-- {
			a, b := out[j-1], out[j]
			aRect, bRect := a.rows != a.cols, b.rows != b.cols
			if a.data > b.data || (a.data == b.data && aRect && !bRect) {
				out[j-1], out[j] = b, a
			} else {
				break
			}
		}
	}
	return out
}

// exported view of the reference table for harnesses in other packages
type VerifDMRow struct {
	Rows, Cols, RegRows, RegCols, HRegions, VRegions, Data, Ecc, Blocks int
}

func VerifRefDM(i int) VerifDMRow {
	r := refDM[i]
	return VerifDMRow{r.rows, r.cols, r.regRows, r.regCols, r.hRegions, r.vRegions, r.data, r.ecc, r.blocks}
}

func VerifRefDMSelfCheck() bool { return refDMSelfCheck() }

// VerifSymbolOfSize returns the library's symbol for reference row i (lookup by exact size).
func VerifSymbolOfSize(i int) *SymbolInfo {
	r := refDM[i]
	for _, s := range symbols {
		if s.GetSymbolWidth() == r.cols && s.GetSymbolHeight() == r.rows {
			return s
		}
	}
	return nil
}
