package encoder

// C08 (encoder side): generator polynomials, ECC block computation, randomisers.

import (
	zv "github.com/makiuchi-d/gozxing/zzverif"
)

// refMulDM: product in GF(256) modulo x^8+x^5+x^3+x^2+1 (0x12D), shifts and xors only.
func refMulDM(a, b int) int {
	p := 0
	for i := 7; i >= 0; i-- {
		p <<= 1
		p ^= 0x12D & -((p >> 8) & 1)
		p ^= b & -((a >> uint(i)) & 1)
	}
	return p
}

// refGenerator: coefficients of prod_{i=1..n}(x - 2^i), lowest degree first, without the leading 1.
func refGenerator(n int) []int {
	g := []int{1} // g[k] = coefficient of x^k
	alpha := 1
	for i := 1; i <= n; i++ {
		alpha = refMulDM(alpha, 2)
		// g *= (x + alpha)
		ng := make([]int, len(g)+1)
		for k, c := range g {
			ng[k+1] ^= c
			ng[k] ^= refMulDM(c, alpha)
		}
		g = ng
	}
	return g[:n]
}

// VerifC08Factors: the stored factor table equals the generator polynomial coefficients.
func VerifC08Factors(idx int) {
	n := factorSets[idx]
	want := refGenerator(n)
	zv.Assert(len(factors[idx]) == n, "factor table length")
	for k := 0; k < n; k++ {
		zv.Assert(factors[idx][k] == want[k], "stored factor differs from the coefficient of prod (x - 2^i)")
	}
	zv.Reach("factors")
}

// refECC: remainder of data(x) * x^n modulo the generator, by the reference product.
func refECC(data []int, n int) []int {
	g := refGenerator(n) // g[k], k = 0..n-1 (monic)
	rem := make([]int, n) // rem[k] = coefficient of x^k
	for _, d := range data {
		m := rem[n-1] ^ d
		for k := n - 1; k > 0; k-- {
			rem[k] = rem[k-1] ^ refMulDM(m, g[k])
		}
		rem[0] = refMulDM(m, g[0])
	}
	out := make([]int, n)
	for i := 0; i < n; i++ {
		out[i] = rem[n-1-i]
	}
	return out
}

// VerifC08ECCUnit: block of k data codewords, all zero except a free byte at pos; n ECC codewords.
func VerifC08ECCUnit(k, n, pos int) {
	data := make([]byte, k)
	data[pos] = zv.Byte()
	ecc, err := createECCBlock(data, n)
	zv.Assert(err == nil && len(ecc) == n, "createECCBlock failed")
	di := make([]int, k)
	for i, d := range data {
		di[i] = int(d)
	}
	want := refECC(di, n)
	ok := true
	for i := 0; i < n; i++ {
		ok = zv.And(ok, int(ecc[i]) == want[i])
	}
	zv.Assert(ok, "ECC codewords differ from the remainder modulo the generator polynomial")
	zv.Reach("eccunit")
}

// VerifC08ECCFree: k free data codewords (small k), n ECC codewords.
func VerifC08ECCFree(k, n int) {
	data := zv.Bytes(k)
	ecc, err := createECCBlock(data, n)
	zv.Assert(err == nil && len(ecc) == n, "createECCBlock failed")
	di := make([]int, k)
	for i, d := range data {
		di[i] = int(d)
	}
	want := refECC(di, n)
	ok := true
	for i := 0; i < n; i++ {
		ok = zv.And(ok, int(ecc[i]) == want[i])
	}
	zv.Assert(ok, "ECC codewords differ from the remainder modulo the generator polynomial")
	zv.Reach("eccfree")
}

// VerifC08Randomisers: 253-state pad and 255-state Base-256 randomising for a free position.
func VerifC08Randomisers() {
	pos := zv.IntRange(1, 1558)
	r := (149*pos)%253 + 1
	want := 129 + r
	if want > 254 {
		want -= 254
	}
	zv.Assert(int(randomize253State(pos)) == want, "253-state randomisation differs from the formula")
	ch := zv.Byte()
	r2 := (149*pos)%255 + 1
	w2 := int(ch) + r2
	if w2 > 255 {
		w2 -= 256
	}
	zv.Assert(int(base256Randomize255State(ch, pos)) == w2, "255-state randomisation differs from the formula")
	zv.Reach("randomisers")
}

// VerifC08Tables: the library's symbol table against the reference row.
func VerifC08Tables(i int) {
	zv.Assert(refDMSelfCheck(), "reference identities")
	r := refDM[i]
	s := VerifSymbolOfSize(i)
	zv.Assert(s != nil, "no symbol of this size in the library table")
	zv.Assert(s.GetDataCapacity() == r.data && s.GetErrorCodewords() == r.ecc, "data / error codewords")
	zv.Assert(s.GetMatrixWidth() == r.regCols && s.GetMatrixHeight() == r.regRows, "data region size")
	zv.Assert(s.getHorizontalDataRegions() == r.hRegions && s.getVerticalDataRegions() == r.vRegions, "number of data regions")
	zv.Assert(s.GetSymbolDataWidth() == r.hRegions*r.regCols && s.GetSymbolDataHeight() == r.vRegions*r.regRows, "mapping matrix size")
	zv.Assert(s.GetInterleavedBlockCount() == r.blocks, "interleaved blocks")
	zv.Assert(s.GetCodewordCount() == r.data+r.ecc, "codeword count")
	sumD, sumE := 0, 0
	for b := 1; b <= r.blocks; b++ {
		d, e := s.GetDataLengthForInterleavedBlock(b), s.GetErrorLengthForInterleavedBlock(b)
		sumD += d
		sumE += e
		zv.Assert(e == r.ecc/r.blocks, "ECC codewords per block")
		// codewords are dealt round-robin: block b (1-based) gets ceil((data - (b-1)) / blocks)
		zv.Assert(d == (r.data-(b-1)+r.blocks-1)/r.blocks, "data codewords per block")
	}
	zv.Assert(sumD == r.data && sumE == r.ecc, "blocks do not add up")
	zv.Reach("tables")
}

// VerifC08Interleave: ErrorCorrection_EncodeECC200 with free data: data untouched, ECC of block b
// (computed by the redirected stub on the round-robin share of the data) at positions
// data + b + blocks*i.
func verifStubECC(codewords []byte, numECWords int) ([]byte, error) {
	ecc := make([]byte, numECWords)
	for i := range ecc {
		d := codewords[i%len(codewords)]
		s := uint(i % 8)
		ecc[i] = d<<s | d>>(8-s)
	}
	return ecc, nil
}

func VerifC08Interleave(i int) {
	zv.Except("C08-ecc-interleave-144", i == 23)
	r := refDM[i]
	s := VerifSymbolOfSize(i)
	data := zv.Bytes(r.data)
	out, err := ErrorCorrection_EncodeECC200(data, s)
	zv.Assert(err == nil && len(out) == r.data+r.ecc, "EncodeECC200 failed")
	ok := true
	for k := 0; k < r.data; k++ {
		ok = zv.And(ok, out[k] == data[k])
	}
	zv.Assert(ok, "data codewords changed")
	per := r.ecc / r.blocks
	ok = true
	for b := 0; b < r.blocks; b++ {
		var share []byte
		for d := b; d < r.data; d += r.blocks {
			share = append(share, data[d])
		}
		want, _ := verifStubECC(share, per)
		// overall codeword n belongs to block n mod blocks, through data and ECC alike
		first := ((b-r.data%r.blocks)%r.blocks + r.blocks) % r.blocks
		for k := 0; k < per; k++ {
			ok = zv.And(ok, out[r.data+first+r.blocks*k] == want[k])
		}
	}
	zv.Assert(ok, "ECC codewords are not interleaved as the standard prescribes")
	zv.Reach("interleave")
}
