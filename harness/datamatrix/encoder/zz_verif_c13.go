package encoder

// C13 — Data Matrix: the first admissible symbol in capacity order, honouring shape and min/max.

import (
	"github.com/makiuchi-d/gozxing"
	zv "github.com/makiuchi-d/gozxing/zzverif"
)

func verifDim(i int) *gozxing.Dimension {
	if i < 0 {
		return nil
	}
	r := refDM[i]
	d, _ := gozxing.NewDimension(r.cols, r.rows)
	return d
}

// VerifC13DMLookup: every codeword count 0..1600 at once; shape in {none, square, rectangle};
// min/max are entries of the size list (or -1 for none).
func VerifC13DMLookup(shape, minIdx, maxIdx int) {
	zv.Assert(refDMSelfCheck(), "reference table fails its own identities")
	n := zv.IntRange(0, 1600)
	minD, maxD := verifDim(minIdx), verifDim(maxIdx)
	sym, err := SymbolInfo_Lookup(n, SymbolShapeHint(shape), minD, maxD, true)
	// reference: first admissible in capacity order
	found := false
	var wRows, wCols, wData, wEcc int
	order := refDMOrder()
	for i := len(order) - 1; i >= 0; i-- {
		r := order[i]
		rect := r.rows != r.cols
		if (shape == int(SymbolShapeHint_FORCE_SQUARE) && rect) || (shape == int(SymbolShapeHint_FORCE_RECTANGLE) && !rect) {
			continue
		}
		if minD != nil && (r.cols < minD.GetWidth() || r.rows < minD.GetHeight()) {
			continue
		}
		if maxD != nil && (r.cols > maxD.GetWidth() || r.rows > maxD.GetHeight()) {
			continue
		}
		if n <= r.data {
			found = true
			wRows, wCols, wData, wEcc = r.rows, r.cols, r.data, r.ecc
		}
	}
	zv.Assert((err == nil) == found, "a symbol is returned exactly when an admissible one exists")
	zv.Assert((sym != nil) == (err == nil), "symbol xor error")
	if err == nil {
		zv.Assert(sym.GetSymbolWidth() == wCols && sym.GetSymbolHeight() == wRows, "not the first admissible symbol in capacity order")
		zv.Assert(sym.GetDataCapacity() == wData && sym.GetErrorCodewords() == wEcc, "capacity of the chosen symbol")
	}
	zv.Reach("dmlookup")
}

// VerifC13DMNoFail: with fail=false nothing admissible yields (nil, nil).
func VerifC13DMNoFail(shape int) {
	n := zv.IntRange(0, 1600)
	sym, err := SymbolInfo_Lookup(n, SymbolShapeHint(shape), nil, nil, false)
	zv.Assert(err == nil, "fail=false never reports an error")
	limit := 1558
	if shape == int(SymbolShapeHint_FORCE_RECTANGLE) {
		limit = 49
	}
	zv.Assert((sym != nil) == (n <= limit), "largest capacity")
	zv.Reach("dmnofail")
}

// VerifC13DMContext: EncoderContext keeps or grows its symbol by length.
func VerifC13DMContext(first int) {
	ctx, err := NewEncoderContext("A")
	zv.Assert(err == nil, "context")
	zv.Assert(ctx.UpdateSymbolInfoByLength(first) == nil, "initial lookup")
	cap0 := ctx.GetSymbolInfo().GetDataCapacity()
	n := zv.IntRange(0, 1600)
	e := ctx.UpdateSymbolInfoByLength(n)
	if n <= cap0 {
		zv.Assert(e == nil && ctx.GetSymbolInfo().GetDataCapacity() == cap0, "a symbol that still fits is kept")
	} else if n <= 1558 {
		zv.Assert(e == nil && ctx.GetSymbolInfo().GetDataCapacity() >= n, "grown symbol holds the data")
	} else {
		zv.Assert(e != nil, "beyond 1558 codewords is refused")
	}
	zv.Reach("dmcontext")
}
