package decoder

// C08 / C02 (decoder side): size table against the reference, de-interleave of raw codewords.

import (
	"github.com/makiuchi-d/gozxing/common"
	"github.com/makiuchi-d/gozxing/datamatrix/encoder"
	zv "github.com/makiuchi-d/gozxing/zzverif"
)

// stubs for end-to-end symbol tasks (see Redirect): no RS correction; the bit stream parser is
// replaced by one that hands the data codewords back unparsed.
func verifNoCorrect(d *Decoder, codewordBytes []byte, numDataCodewords int) error { return nil }

// verifCheckPairing stands in for correctErrors when the encoder's createECCBlock is replaced by
// the rotation stub: it checks that the error codewords the decoder pairs with this block are the
// ones the encoder computed for exactly this block's data (so a disagreement about the ECC
// interleaving between writer and reader is visible without the RS algebra).
func verifCheckPairing(d *Decoder, codewordBytes []byte, numDataCodewords int) error {
	data := codewordBytes[:numDataCodewords]
	ok := true
	for i := numDataCodewords; i < len(codewordBytes); i++ {
		k := i - numDataCodewords
		x := data[k%len(data)]
		s := uint(k % 8)
		ok = zv.And(ok, codewordBytes[i] == x<<s|x>>(8-s))
	}
	zv.Assert(ok, "the decoder pairs a block's data with error codewords the encoder computed for another block")
	return nil
}

func verifRawResult(bytes []byte) (*common.DecoderResult, error) {
	return common.NewDecoderResult(bytes, "", nil, ""), nil
}

// VerifC08DecoderVersion: the decoder's version entry for reference row i.
func VerifC08DecoderVersion(i int) {
	r := encoder.VerifRefDM(i)
	v, err := getVersionForDimensions(r.Rows, r.Cols)
	zv.Assert(err == nil && v != nil, "decoder has no version for this size")
	zv.Assert(v.getSymbolSizeRows() == r.Rows && v.getSymbolSizeColumns() == r.Cols, "symbol size")
	zv.Assert(v.getDataRegionSizeRows() == r.RegRows && v.getDataRegionSizeColumns() == r.RegCols, "data region size")
	zv.Assert(v.getTotalCodewords() == r.Data+r.Ecc, "total codewords")
	ecb := v.getECBlocks()
	n, data := 0, 0
	for _, b := range ecb.getECBlocks() {
		n += b.getCount()
		data += b.getCount() * b.getDataCodewords()
	}
	zv.Assert(n == r.Blocks && data == r.Data && ecb.getECCodewords() == r.Ecc/r.Blocks, "block structure")
	zv.Reach("decversion")
}

// VerifC02Blocks: free raw codewords: codeword n of the interleaved sequence (data then ECC)
// belongs to block n mod blocks (ISO 16022 interleaving; 144x144: 8 blocks of 156 + 2 of 155, so
// the ECC codewords start with block 8).
func VerifC02Blocks(i int) {
	r := encoder.VerifRefDM(i)
	v, _ := getVersionForDimensions(r.Rows, r.Cols)
	raw := zv.Bytes(r.Data + r.Ecc)
	blocks, err := DataBlocks_getDataBlocks(raw, v)
	zv.Assert(err == nil && len(blocks) == r.Blocks, "getDataBlocks failed")
	per := r.Ecc / r.Blocks
	ok := true
	for b := range blocks {
		nd := (r.Data - b + r.Blocks - 1) / r.Blocks
		zv.Assert(blocks[b].getNumDataCodewords() == nd && len(blocks[b].getCodewords()) == nd+per, "block size")
		cw := blocks[b].getCodewords()
		for k := 0; k < nd; k++ {
			ok = zv.And(ok, cw[k] == raw[b+r.Blocks*k])
		}
		// the round robin continues through the ECC codewords: overall codeword n belongs to block
		// n mod blocks (only 144x144 has data % blocks != 0)
		first := ((b-r.Data%r.Blocks)%r.Blocks + r.Blocks) % r.Blocks
		for k := 0; k < per; k++ {
			ok = zv.And(ok, cw[nd+k] == raw[r.Data+first+r.Blocks*k])
		}
	}
	zv.Assert(ok, "de-interleaved blocks differ from the standard's assignment")
	zv.Reach("dmblocks")
}
