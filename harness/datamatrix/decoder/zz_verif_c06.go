package decoder

// C06 — the Data Matrix bit-stream parser and matrix decoder are total.

import (
	"github.com/makiuchi-d/gozxing"
	zv "github.com/makiuchi-d/gozxing/zzverif"
)

func VerifC06DMStream(n int) {
	data := zv.Bytes(n)
	res, err := DecodedBitStreamParser_decode(data)
	zv.Assert((res != nil) != (err != nil), "parser must return exactly one of result and error")
	if err != nil {
		_, isF := err.(gozxing.FormatException)
		zv.Assert(isF, "parser errors must be FormatException")
	}
	zv.Reach("dmstream")
}

func VerifC06DMMatrixDims(lo, hi int) {
	for w := lo; w <= hi; w++ {
		for h := lo; h <= hi; h++ {
			for fill := 0; fill < 2; fill++ {
				b, _ := gozxing.NewBitMatrix(w, h)
				if fill == 1 {
					b.FlipAll()
				}
				res, err := NewDecoder().Decode(b)
				zv.Assert((res != nil) != (err != nil), "Decode must return exactly one of result and error")
				if err != nil {
					switch err.(type) {
					case gozxing.FormatException, gozxing.ChecksumException, gozxing.NotFoundException:
					default:
						zv.Fail("Decode errors must be format/checksum/not-found")
					}
				}
			}
		}
	}
	zv.Reach("dmdims")
}
