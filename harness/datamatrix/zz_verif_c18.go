package datamatrix

// C18 / C09 — concrete end-to-end paths under the engine's shared-write monitor.

import (
	"github.com/makiuchi-d/gozxing"
	zv "github.com/makiuchi-d/gozxing/zzverif"
)

var verifC18Contents = []string{"Hello Data Matrix 0123456789", "ABC*>123456 mixed Text, and X12"}

func VerifC18DM(i int) {
	content := verifC18Contents[i]
	m, err := NewDataMatrixWriter().Encode(content, gozxing.BarcodeFormat_DATA_MATRIX, 150, 150, nil)
	zv.Assert(err == nil && m != nil, "content is accepted")
	// the writer renders without a quiet zone: pad so that the detector has a white border
	w, h := m.GetWidth(), m.GetHeight()
	pad := 10
	p, _ := gozxing.NewBitMatrix(w+2*pad, h+2*pad)
	for y := 0; y < h; y++ {
		for x := 0; x < w; x++ {
			if m.Get(x, y) {
				p.Set(x+pad, y+pad)
			}
		}
	}
	bmp, err := gozxing.NewBinaryBitmapFromImage(p)
	zv.Assert(err == nil, "bitmap")
	res, err := NewDataMatrixReader().Decode(bmp, nil)
	zv.Assert(err == nil && res != nil, "the rendered symbol is read")
	zv.Assert(res.GetText() == content, "read(write(c)) == c")
	bmp2, _ := gozxing.NewBinaryBitmapFromImage(m)
	res2, err := NewDataMatrixReader().Decode(bmp2, map[gozxing.DecodeHintType]interface{}{gozxing.DecodeHintType_PURE_BARCODE: true})
	zv.Assert(err == nil && res2 != nil && res2.GetText() == content, "pure-barcode read")
	zv.Reach("c18dm")
}

// VerifC09DMImage: concrete content i written at the requested size, padded by pad white pixels,
// turned by rot quarter turns, read through the normal locating path: the content, or a reader
// error — never other content; upright with a white border it must be read.
func VerifC09DMImage(i, size, pad, rot int) {
	content := verifC18Contents[i]
	m, err := NewDataMatrixWriter().Encode(content, gozxing.BarcodeFormat_DATA_MATRIX, size, size, nil)
	zv.Assert(err == nil && m != nil, "content is accepted")
	w, h := m.GetWidth(), m.GetHeight()
	p, _ := gozxing.NewBitMatrix(w+2*pad, h+2*pad)
	for y := 0; y < h; y++ {
		for x := 0; x < w; x++ {
			if m.Get(x, y) {
				p.Set(x+pad, y+pad)
			}
		}
	}
	for k := 0; k < rot; k++ {
		p.Rotate90()
	}
	bmp, _ := gozxing.NewBinaryBitmapFromImage(p)
	res, e := NewDataMatrixReader().Decode(bmp, nil)
	if e != nil {
		_, isReaderErr := e.(gozxing.ReaderException)
		zv.Assert(isReaderErr, "only reader exceptions")
		zv.Assert(rot != 0 || pad < 4, "an upright clean symbol with a white border must be read")
	} else {
		zv.Assert(res.GetText() == content, "never different content")
	}
	zv.Reach("c09dmimage")
}
