package datamatrix

// C08 / C02(c): module placement (Annex F) and finder/clock geometry against an independent
// construction; symbol written -> symbol read for free codewords.

import (
	"github.com/makiuchi-d/gozxing/datamatrix/decoder"
	"github.com/makiuchi-d/gozxing/datamatrix/encoder"
	zv "github.com/makiuchi-d/gozxing/zzverif"
)

// reference placement, from the program in ISO/IEC 16022 Annex F: arr[row][col] = 10*chr + bit
// (bit 1 = most significant), 1 for the fixed pattern modules set dark, 0 for light.
type refPlace struct {
	nrow, ncol int
	arr        [][]int
}

func (p *refPlace) module(row, col, chr, bit int) {
	if row < 0 {
		row += p.nrow
		col += 4 - (p.nrow+4)%8
	}
	if col < 0 {
		col += p.ncol
		row += 4 - (p.ncol+4)%8
	}
	p.arr[row][col] = 10*chr + bit
}

func (p *refPlace) utah(row, col, chr int) {
	p.module(row-2, col-2, chr, 1)
	p.module(row-2, col-1, chr, 2)
	p.module(row-1, col-2, chr, 3)
	p.module(row-1, col-1, chr, 4)
	p.module(row-1, col, chr, 5)
	p.module(row, col-2, chr, 6)
	p.module(row, col-1, chr, 7)
	p.module(row, col, chr, 8)
}

func (p *refPlace) corner(k, chr int) {
	nrow, ncol := p.nrow, p.ncol
	var pos [8][2]int
	switch k {
	case 1:
		pos = [8][2]int{{nrow - 1, 0}, {nrow - 1, 1}, {nrow - 1, 2}, {0, ncol - 2}, {0, ncol - 1}, {1, ncol - 1}, {2, ncol - 1}, {3, ncol - 1}}
	case 2:
		pos = [8][2]int{{nrow - 3, 0}, {nrow - 2, 0}, {nrow - 1, 0}, {0, ncol - 4}, {0, ncol - 3}, {0, ncol - 2}, {0, ncol - 1}, {1, ncol - 1}}
	case 3:
		pos = [8][2]int{{nrow - 3, 0}, {nrow - 2, 0}, {nrow - 1, 0}, {0, ncol - 2}, {0, ncol - 1}, {1, ncol - 1}, {2, ncol - 1}, {3, ncol - 1}}
	default:
		pos = [8][2]int{{nrow - 1, 0}, {nrow - 1, ncol - 1}, {0, ncol - 3}, {0, ncol - 2}, {0, ncol - 1}, {1, ncol - 3}, {1, ncol - 2}, {1, ncol - 1}}
	}
	for b, rc := range pos {
		p.module(rc[0], rc[1], chr, b+1)
	}
}

func refPlacement(nrow, ncol int) *refPlace {
	p := &refPlace{nrow: nrow, ncol: ncol, arr: make([][]int, nrow)}
	for i := range p.arr {
		p.arr[i] = make([]int, ncol)
	}
	chr, row, col := 1, 4, 0
	for {
		if row == nrow && col == 0 {
			p.corner(1, chr)
			chr++
		}
		if row == nrow-2 && col == 0 && ncol%4 != 0 {
			p.corner(2, chr)
			chr++
		}
		if row == nrow-2 && col == 0 && ncol%8 == 4 {
			p.corner(3, chr)
			chr++
		}
		if row == nrow+4 && col == 2 && ncol%8 == 0 {
			p.corner(4, chr)
			chr++
		}
		for {
			if row < nrow && col >= 0 && p.arr[row][col] == 0 {
				p.utah(row, col, chr)
				chr++
			}
			row -= 2
			col += 2
			if !(row >= 0 && col < ncol) {
				break
			}
		}
		row++
		col += 3
		for {
			if row >= 0 && col < ncol && p.arr[row][col] == 0 {
				p.utah(row, col, chr)
				chr++
			}
			row += 2
			col -= 2
			if !(row < nrow && col >= 0) {
				break
			}
		}
		row += 3
		col++
		if !(row < nrow || col < ncol) {
			break
		}
	}
	if p.arr[nrow-1][ncol-1] == 0 {
		p.arr[nrow-1][ncol-1] = 1
		p.arr[nrow-2][ncol-2] = 1
	}
	return p
}

// refBit: the value the reference assigns to mapping-matrix module (row, col) for codewords cw.
func (p *refPlace) bit(cw []byte, row, col int) bool {
	v := p.arr[row][col]
	if v < 10 {
		return v == 1
	}
	chr, b := v/10, v%10
	return (cw[chr-1]>>uint(8-b))&1 != 0
}

// VerifC08Placement: DefaultPlacement.Place for free codewords == reference placement.
func VerifC08Placement(i int) {
	r := encoder.VerifRefDM(i)
	nrow, ncol := r.VRegions*r.RegRows, r.HRegions*r.RegCols
	cw := zv.Bytes(r.Data + r.Ecc)
	pl := encoder.NewDefaultPlacement(cw, ncol, nrow)
	pl.Place()
	ref := refPlacement(nrow, ncol)
	for row := 0; row < nrow; row++ {
		ok := true
		for col := 0; col < ncol; col++ {
			ok = zv.And(ok, pl.GetBit(col, row) == ref.bit(cw, row, col))
		}
		zv.Assert(ok, "module placement differs from ISO/IEC 16022 Annex F")
	}
	zv.Reach("placement")
}

// VerifC08LowLevel: the full symbol (finder L, clock tracks, data regions) for free codewords.
func VerifC08LowLevel(i int) {
	r := encoder.VerifRefDM(i)
	s := encoder.VerifSymbolOfSize(i)
	nrow, ncol := r.VRegions*r.RegRows, r.HRegions*r.RegCols
	cw := zv.Bytes(r.Data + r.Ecc)
	pl := encoder.NewDefaultPlacement(cw, ncol, nrow)
	pl.Place()
	img := encodeLowLevel(pl, s, 0, 0)
	zv.Assert(img.GetWidth() == r.Cols && img.GetHeight() == r.Rows, "symbol size")
	ref := refPlacement(nrow, ncol)
	for y := 0; y < r.Rows; y++ {
		ok := true
		for x := 0; x < r.Cols; x++ {
			// position inside its region (with the 1-module border)
			ry, rx := y%(r.RegRows+2), x%(r.RegCols+2)
			var want bool
			switch {
			case rx == 0: // left edge of a region: solid
				want = true
			case ry == r.RegRows+1: // bottom edge: solid
				want = true
			case ry == 0: // top edge: alternating, dark at even columns of the region
				want = rx%2 == 0
			case rx == r.RegCols+1: // right edge: alternating, light in the top corner, dark next to the solid bottom row's neighbour
				want = ry%2 == 1
			default:
				dr := (y/(r.RegRows+2))*r.RegRows + ry - 1
				dc := (x/(r.RegCols+2))*r.RegCols + rx - 1
				want = ref.bit(cw, dr, dc)
			}
			ok = zv.And(ok, img.Get(x, y) == want)
		}
		zv.Assert(ok, "symbol row differs from the reference (finder / clock track / data region)")
	}
	zv.Reach("lowlevel")
}

// VerifC02Symbol: free data codewords -> real ECC interleave (ECC generation stubbed) -> place ->
// draw -> real Decoder.Decode (RS correction and bit-stream parsing stubbed): the data codewords
// come back in order.
func VerifC02Symbol(i int) {
	r := encoder.VerifRefDM(i)
	s := encoder.VerifSymbolOfSize(i)
	data := zv.Bytes(r.Data)
	cw, err := encoder.ErrorCorrection_EncodeECC200(data, s)
	zv.Assert(err == nil, "EncodeECC200")
	pl := encoder.NewDefaultPlacement(cw, s.GetSymbolDataWidth(), s.GetSymbolDataHeight())
	pl.Place()
	img := encodeLowLevel(pl, s, 0, 0)
	res, e2 := decoder.NewDecoder().Decode(img)
	zv.Assert(e2 == nil && res != nil, "the symbol written was not decoded")
	raw := res.GetRawBytes()
	zv.Assert(len(raw) == r.Data, "number of data codewords read")
	ok := true
	for k := range raw {
		ok = zv.And(ok, raw[k] == data[k])
	}
	zv.Assert(ok, "data codewords read back differ from those written")
	zv.Reach("dmsymbol")
}
