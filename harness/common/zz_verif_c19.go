package common

// C19 — check-and-nudge of sample points, grid sampling, perspective transform.

import (
	"github.com/makiuchi-d/gozxing"
	zv "github.com/makiuchi-d/gozxing/zzverif"
)

func verifCoord() float64 {
	f := zv.Float64()
	zv.Assume(f > -1048576.0 && f < 1048576.0) // |v| < 2^20: int(f) is well defined
	return f
}

// VerifC19Nudge: free coordinates for npts points on a w x h image.
func VerifC19Nudge(w, h, npts int) {
	img, _ := gozxing.NewBitMatrix(w, h)
	pts := make([]float64, 2*npts)
	before := make([]float64, 2*npts)
	for i := range pts {
		pts[i] = verifCoord()
		before[i] = pts[i]
	}
	err := GridSampler_checkAndNudgePoints(img, pts)
	if err != nil {
		_, isNF := err.(gozxing.NotFoundException)
		zv.Assert(isNF, "error kind must be NotFoundException")
	}
	// every coordinate is either unchanged or pulled from one outside onto the edge
	for i := 0; i < npts; i++ {
		bx, by := int(before[2*i]), int(before[2*i+1])
		ax, ay := pts[2*i], pts[2*i+1]
		okx := zv.Or(ax == before[2*i], zv.Or(zv.And(bx == -1, ax == 0), zv.And(bx == w, ax == float64(w-1))))
		oky := zv.Or(ay == before[2*i+1], zv.Or(zv.And(by == -1, ay == 0), zv.And(by == h, ay == float64(h-1))))
		zv.Assert(okx, "x coordinate changed to something other than the nearest edge column")
		zv.Except("C19-nudge-first-pass-bottom-edge", true)
		zv.Assert(oky, "y coordinate changed to something other than the nearest edge row")
	}
	first, last := 0, npts-1
	for _, i := range []int{first, last} {
		bx, by := int(before[2*i]), int(before[2*i+1])
		far := zv.Or(zv.Or(bx < -1, bx > w), zv.Or(by < -1, by > h))
		zv.Assert(zv.Implies(far, err != nil), "an end point more than one pixel outside must be NotFound")
		if err == nil {
			ax, ay := int(pts[2*i]), int(pts[2*i+1])
			zv.Assert(zv.And(ax >= 0, ax < w), "after success an end point's column must be inside the image")
			zv.Assert(zv.And(ay >= 0, ay < h), "after success an end point's row must be inside the image")
		}
	}
	zv.Reach("nudge")
}

// VerifC19SampleTranslate: sampling a dimX x dimY grid through an integer translation (tx, ty) of a
// free w x h image: cell (x, y) must be pixel (x+tx, y+ty), with rows/columns exactly one outside
// pulled onto the edge, anything farther NotFound, and nothing outside the image read.
func VerifC19SampleTranslate(w, h, dimX, dimY, tx, ty int) {
	img, _ := gozxing.NewBitMatrix(w, h)
	px := make([][]bool, h)
	for y := range px {
		px[y] = zv.Bools(w)
		for x, b := range px[y] {
			if b {
				img.Set(x, y)
			}
		}
	}
	d := float64(dimX)
	e := float64(dimY)
	ftx, fty := float64(tx), float64(ty)
	bits, err := GridSampler_GetInstance().SampleGrid(img, dimX, dimY,
		0, 0, d, 0, d, e, 0, e,
		ftx, fty, d+ftx, fty, d+ftx, e+fty, ftx, e+fty)
	if dimX <= 0 || dimY <= 0 {
		zv.Assert(err != nil && bits == nil, "non-positive grid dimensions must be refused")
		zv.Reach("sample-dims")
		return
	}
	// Known finding: float->int truncation toward zero makes the low edges more lenient than the
	// high ones: a centre in (-2,-1) is "pixel -1" and is pulled in instead of NotFound.
	tr := func(v int) int { // int(float(v)+0.5) with Go's truncation toward zero
		if v < 0 {
			return v + 1
		}
		return v
	}
	outsideCode := false
	for y := 0; y < dimY; y++ {
		for x := 0; x < dimX; x++ {
			sx, sy := tr(x+tx), tr(y+ty)
			if sx < -1 || sx > w || sy < -1 || sy > h {
				outsideCode = true
			}
		}
	}
	zv.Except("C19-low-edge-truncation", (tx == -2 || ty == -2) && !outsideCode)
	// expectation
	outside := false
	clamp := func(v, n int) int {
		if v == -1 {
			return 0
		}
		if v == n {
			return n - 1
		}
		return v
	}
	for y := 0; y < dimY; y++ {
		for x := 0; x < dimX; x++ {
			sx, sy := x+tx, y+ty
			if sx < -1 || sx > w || sy < -1 || sy > h {
				outside = true
			}
		}
	}
	if outside {
		zv.Assert(err != nil && bits == nil, "a cell more than one pixel outside the image must give NotFound")
		if err != nil {
			_, isNF := err.(gozxing.NotFoundException)
			zv.Assert(isNF, "error kind")
		}
		zv.Reach("sample-outside")
		return
	}
	zv.Except("C19-nudge-first-pass-bottom-edge", ty+dimY-1 == h && dimX > 1)
	zv.Assert(err == nil && bits != nil, "sampling inside (or one pixel outside) the image must succeed")
	zv.Assert(bits.GetWidth() == dimX && bits.GetHeight() == dimY, "result dimensions")
	ok := true
	for y := 0; y < dimY; y++ {
		for x := 0; x < dimX; x++ {
			sx, sy := clamp(x+tx, w), clamp(y+ty, h)
			ok = zv.And(ok, bits.Get(x, y) == px[sy][sx])
		}
	}
	zv.Assert(ok, "sampled bit differs from the pixel under the transformed cell centre")
	zv.Reach("sample")
}

// VerifC19SampleRotate: sampling a dim x dim grid through a quarter turn plus integer translation.
// dir=0: cell (x, y) -> pixel (dim-1-y+tx, x+ty); dir=1: cell (x, y) -> pixel (y+tx, dim-1-x+ty).
func VerifC19SampleRotate(w, h, dim, tx, ty, dir int) {
	img, _ := gozxing.NewBitMatrix(w, h)
	px := make([][]bool, h)
	for y := range px {
		px[y] = zv.Bools(w)
		for x, b := range px[y] {
			if b {
				img.Set(x, y)
			}
		}
	}
	d := float64(dim)
	ftx, fty := float64(tx), float64(ty)
	var bits *gozxing.BitMatrix
	var err error
	if dir == 0 {
		bits, err = GridSampler_GetInstance().SampleGrid(img, dim, dim,
			0, 0, d, 0, d, d, 0, d,
			d+ftx, fty, d+ftx, d+fty, ftx, d+fty, ftx, fty)
	} else {
		bits, err = GridSampler_GetInstance().SampleGrid(img, dim, dim,
			0, 0, d, 0, d, d, 0, d,
			ftx, d+fty, ftx, fty, d+ftx, fty, d+ftx, d+fty)
	}
	src := func(x, y int) (int, int) {
		if dir == 0 {
			return dim - 1 - y + tx, x + ty
		}
		return y + tx, dim - 1 - x + ty
	}
	clamp := func(v, n int) int {
		if v == -1 {
			return 0
		}
		if v == n {
			return n - 1
		}
		return v
	}
	outside := false
	lowTrunc, outsideCode := false, false
	tr := func(v int) int {
		if v < 0 {
			return v + 1
		}
		return v
	}
	for y := 0; y < dim; y++ {
		for x := 0; x < dim; x++ {
			sx, sy := src(x, y)
			if sx < -1 || sx > w || sy < -1 || sy > h {
				outside = true
			}
			if sx == -2 || sy == -2 {
				lowTrunc = true
			}
			if tr(sx) < -1 || tr(sx) > w || tr(sy) < -1 || tr(sy) > h {
				outsideCode = true
			}
		}
	}
	zv.Except("C19-low-edge-truncation", lowTrunc && !outsideCode)
	if outside {
		zv.Assert(err != nil && bits == nil, "a cell more than one pixel outside the image must give NotFound")
		zv.Reach("rotate-outside")
		return
	}
	zv.Except("C19-nudge-first-pass-bottom-edge", dir == 1 && dim-1+ty == h && dim > 1)
	zv.Assert(err == nil && bits != nil, "sampling inside (or one pixel outside) the image must succeed")
	ok := true
	for y := 0; y < dim; y++ {
		for x := 0; x < dim; x++ {
			sx, sy := src(x, y)
			ok = zv.And(ok, bits.Get(x, y) == px[clamp(sy, h)][clamp(sx, w)])
		}
	}
	zv.Assert(ok, "sampled bit differs from the pixel under the transformed cell centre")
	zv.Reach("rotate")
}

// VerifC19TransformCorners: the affine branch with free integer corners: each source corner maps
// onto its destination within 1e-6.
func VerifC19TransformCorners(bitsPer int) {
	c := func() float64 { return float64(int(zv.Byte() & byte(1<<uint(bitsPer)-1))) }
	// parallelogram source (affine branch): p0, p1, p3 free, p2 = p1 + p3 - p0
	x0, y0, x1, y1, x3, y3 := c(), c(), c(), c(), c(), c()
	x2, y2 := x1+x3-x0, y1+y3-y0
	// non-degenerate
	det := (x1-x0)*(y3-y0) - (x3-x0)*(y1-y0)
	zv.Assume(det != 0)
	// destination: unit-square scaled translation (concrete)
	t := PerspectiveTransform_QuadrilateralToQuadrilateral(x0, y0, x1, y1, x2, y2, x3, y3, 3, 4, 11, 4, 11, 12, 3, 12)
	pts := []float64{x0, y0, x1, y1, x2, y2, x3, y3}
	t.TransformPoints(pts)
	want := []float64{3, 4, 11, 4, 11, 12, 3, 12}
	for i := range pts {
		diff := pts[i] - want[i]
		zv.Assert(zv.And(diff <= 1e-6, diff >= -1e-6), "a source corner does not map onto its destination")
	}
	zv.Reach("corners")
}

// VerifC19TransformGround: ground (concrete) obligations, exhaustive over a small integer range:
// for every quadrilateral with corner coordinates in 0..r (convex, non-degenerate) the transform
// from the unit-scaled square (0,0),(4,0),(4,4),(0,4) maps each source corner onto its
// destination within 1e-6, and the inverse direction as well. (The free-corner version of this
// obligation does not finish in the solvers; this enumeration is supplementary, not symbolic.)
func VerifC19TransformGround(r, x0 int) {
	cross := func(ax, ay, bx, by, cx, cy int) int { return (bx-ax)*(cy-ay) - (by-ay)*(cx-ax) }
	n := 0
	for y0 := 0; y0 <= r; y0++ {
		for x1 := 0; x1 <= r; x1++ {
			for y1 := 0; y1 <= r; y1++ {
				for x2 := 0; x2 <= r; x2++ {
					for y2 := 0; y2 <= r; y2++ {
						for x3 := 0; x3 <= r; x3++ {
							for y3 := 0; y3 <= r; y3++ {
								// strictly convex, consistently oriented
								a := cross(x0, y0, x1, y1, x2, y2)
								b := cross(x1, y1, x2, y2, x3, y3)
								c := cross(x2, y2, x3, y3, x0, y0)
								d := cross(x3, y3, x0, y0, x1, y1)
								if !(a > 0 && b > 0 && c > 0 && d > 0) {
									continue
								}
								n++
								fx := []float64{float64(x0), float64(y0), float64(x1), float64(y1), float64(x2), float64(y2), float64(x3), float64(y3)}
								t := PerspectiveTransform_QuadrilateralToQuadrilateral(0, 0, 4, 0, 4, 4, 0, 4, fx[0], fx[1], fx[2], fx[3], fx[4], fx[5], fx[6], fx[7])
								pts := []float64{0, 0, 4, 0, 4, 4, 0, 4}
								t.TransformPoints(pts)
								ok := true
								for i := range pts {
									df := pts[i] - fx[i]
									ok = ok && df <= 1e-6 && df >= -1e-6
								}
								zv.Assert(ok, "square corner does not map onto the quadrilateral corner")
								t2 := PerspectiveTransform_QuadrilateralToQuadrilateral(fx[0], fx[1], fx[2], fx[3], fx[4], fx[5], fx[6], fx[7], 0, 0, 4, 0, 4, 4, 0, 4)
								p2 := append([]float64(nil), fx...)
								t2.TransformPoints(p2)
								want := []float64{0, 0, 4, 0, 4, 4, 0, 4}
								ok = true
								for i := range p2 {
									df := p2[i] - want[i]
									ok = ok && df <= 1e-6 && df >= -1e-6
								}
								zv.Assert(ok, "quadrilateral corner does not map onto the square corner")
							}
						}
					}
				}
			}
		}
	}
	zv.Reach("transformground")
}
