package common

// C15(a) — the ECI registry is consistent.

import (
	"github.com/makiuchi-d/gozxing"
	zv "github.com/makiuchi-d/gozxing/zzverif"
)

// VerifC15Registry: a free ECI number in [lo, hi]: out of range -> FormatException; in range -> an
// entry or nothing; an entry lists the number among its values and resolves back through its
// primary value, its name, every alias and its charset to the same entry.
func VerifC15Registry(lo, hi int) {
	v := zv.IntRange(lo, hi)
	eci, err := GetCharacterSetECIByValue(v)
	if v < 0 || v >= 900 {
		_, isFmt := err.(gozxing.FormatException)
		zv.Assert(err != nil && isFmt && eci == nil, "an out-of-range ECI number is a format error")
		zv.Reach("c15registry")
		return
	}
	zv.Assert(err == nil, "an in-range ECI number is not an error at the registry")
	if eci != nil {
		found := false
		for _, x := range eci.values {
			found = zv.Or(found, x == v)
		}
		zv.Assert(found, "the entry found for a number lists that number")
		back, e2 := GetCharacterSetECIByValue(eci.GetValue())
		zv.Assert(e2 == nil && back == eci, "primary value resolves to the same entry")
		byName, ok := GetCharacterSetECIByName(eci.Name())
		zv.Assert(ok && byName == eci, "name resolves to the same entry")
		for _, alias := range eci.otherEncodingNames {
			a, ok := GetCharacterSetECIByName(alias)
			zv.Assert(ok && a == eci, "alias resolves to the same entry")
		}
		byCs, ok := GetCharacterSetECI(eci.GetCharset())
		zv.Assert(ok && byCs == eci, "charset resolves to the same entry")
	}
	zv.Reach("c15registry")
}

// VerifC15Names: every name in the registry leads to an entry that knows the name (or it is the IANA
// name of its charset) and whose values all lead back to it.
func VerifC15Names() {
	n := 0
	for name, eci := range nameToECI {
		zv.Assert(eci != nil, "nil entry")
		known := name == eci.name
		for _, a := range eci.otherEncodingNames {
			known = known || a == name
		}
		if !known {
			byCs, ok := GetCharacterSetECI(eci.GetCharset())
			zv.Assert(ok && byCs == eci, "a name that is neither primary nor alias is the charset's IANA name")
		}
		for _, v := range eci.values {
			back, err := GetCharacterSetECIByValue(v)
			zv.Assert(err == nil && back == eci, "every value of an entry resolves to it")
		}
		n++
	}
	zv.Assert(n >= 27, "at least the 27 registered character sets")
	zv.Reach("c15names")
}
