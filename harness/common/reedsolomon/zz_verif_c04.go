package reedsolomon

// C04 — GF(2^m) arithmetic against carry-less multiplication modulo the field polynomial, and
// Reed-Solomon encode/decode at small shapes with free data / error magnitudes.

import (
	zv "github.com/makiuchi-d/gozxing/zzverif"
)

type verifField struct {
	f    *GenericGF
	prim int
	m    int // bits
	base int
}

func verifGF(i int) verifField {
	switch i {
	case 0:
		return verifField{GenericGF_AZTEC_PARAM, 0x13, 4, 1}
	case 1:
		return verifField{GenericGF_AZTEC_DATA_6, 0x43, 6, 1}
	case 2:
		return verifField{GenericGF_QR_CODE_FIELD_256, 0x11D, 8, 0}
	case 3:
		return verifField{GenericGF_DATA_MATRIX_FIELD_256, 0x12D, 8, 1}
	case 4:
		return verifField{GenericGF_AZTEC_DATA_10, 0x409, 10, 1}
	}
	return verifField{GenericGF_AZTEC_DATA_12, 0x1069, 12, 1}
}

// refMul: polynomial product of a and b over GF(2) reduced modulo prim (degree m); shifts and
// xors only, no tables. Branch-free in b and in the accumulator so it stays one term.
func refMul(a, b, prim, m int) int {
	p := 0
	for i := m - 1; i >= 0; i-- {
		p <<= 1
		p ^= prim & -((p >> uint(m)) & 1)
		p ^= b & -((a >> uint(i)) & 1)
	}
	return p
}

func refPow(x, e, prim, m int) int {
	r := 1
	for i := 0; i < e; i++ {
		r = refMul(r, x, prim, m)
	}
	return r
}

func verifElem(m int) int {
	if m <= 8 {
		return int(zv.Byte()) & (1<<uint(m) - 1)
	}
	return int(zv.Uint16()) & (1<<uint(m) - 1)
}

// VerifC04Mul: Multiply(a, b) for concrete a in [lo, hi) and every b at once; also commutativity
// of the table product.
func VerifC04Mul(field, lo, hi int) {
	g := verifGF(field)
	b := verifElem(g.m)
	for a := lo; a < hi; a++ {
		zv.Assert(g.f.Multiply(a, b) == refMul(a, b, g.prim, g.m), "Multiply(a,b) differs from the polynomial product modulo the field polynomial")
		zv.Assert(g.f.Multiply(b, a) == g.f.Multiply(a, b), "Multiply is not commutative")
	}
	zv.Assert(g.f.GetSize() == 1<<uint(g.m) && g.f.GetGeneratorBase() == g.base, "field parameters")
	zv.Reach("mul")
}

// VerifC04InvExpLog: a free inside one chunk of the field.
func VerifC04InvExpLog(field, chunk, chunkBits int) {
	g := verifGF(field)
	size := 1 << uint(g.m)
	a := chunk<<uint(chunkBits) | int(zv.Uint16())&(1<<uint(chunkBits)-1)
	inv, err := g.f.Inverse(a)
	lg, err2 := g.f.Log(a)
	zv.Assert((err != nil) == (a == 0) && (err2 != nil) == (a == 0), "Inverse/Log refuse exactly zero")
	if err == nil {
		zv.Assert(refMul(a, inv, g.prim, g.m) == 1, "a * Inverse(a) != 1")
		zv.Assert(zv.And(inv > 0, inv < size), "Inverse out of the field")
		zv.Assert(zv.And(lg >= 0, lg < size-1), "Log out of range")
		zv.Assert(g.f.Exp(lg) == a, "Exp(Log(a)) != a")
	}
	zv.Reach("invexplog")
}

// VerifC04ExpStep: the exponent table is the sequence of powers of x: exp[0] = 1,
// exp[i+1] = x * exp[i] (free i inside a chunk), and Log(Exp(i)) = i.
func VerifC04ExpStep(field, chunk, chunkBits int) {
	g := verifGF(field)
	size := 1 << uint(g.m)
	i := chunk<<uint(chunkBits) | int(zv.Uint16())&(1<<uint(chunkBits)-1)
	zv.Assume(i < size-1)
	zv.Assert(g.f.Exp(0) == 1, "Exp(0) != 1")
	e := g.f.Exp(i)
	zv.Assert(zv.And(e > 0, e < size), "Exp out of the field")
	if i+1 < size {
		zv.Assert(g.f.Exp(i+1) == refMul(e, 2, g.prim, g.m), "Exp(i+1) != x * Exp(i)")
	}
	lg, err := g.f.Log(e)
	zv.Assert(err == nil && lg == i, "Log(Exp(i)) != i")
	zv.Reach("expstep")
}

func verifData(g verifField, k int) []int {
	d := make([]int, k)
	for i := range d {
		d[i] = verifElem(g.m)
	}
	return d
}

// syndrome j of word c: c(alpha^(j+base)), Horner with the reference product
func refSyndrome(g verifField, c []int, j int) int {
	x := refPow(2, j+g.base, g.prim, g.m)
	s := 0
	for _, ci := range c {
		s = refMul(x, s, g.prim, g.m) ^ ci
	}
	return s
}

// VerifC04Encode: k free data symbols, r parity symbols: data untouched, all syndromes zero,
// parity inside the field.
func VerifC04Encode(field, k, r int) {
	g := verifGF(field)
	data := verifData(g, k)
	word := make([]int, k+r)
	copy(word, data)
	for i := k; i < k+r; i++ {
		word[i] = 0x7fff // must be overwritten
	}
	enc := NewReedSolomonEncoder(g.f)
	err := enc.Encode(word, r)
	zv.Assert(err == nil, "Encode failed")
	ok := true
	for i := 0; i < k; i++ {
		ok = zv.And(ok, word[i] == data[i])
	}
	zv.Assert(ok, "Encode changed the data symbols")
	for i := k; i < k+r; i++ {
		zv.Assert(zv.And(word[i] >= 0, word[i] < 1<<uint(g.m)), "parity symbol outside the field")
	}
	for j := 0; j < r; j++ {
		zv.Assert(refSyndrome(g, word, j) == 0, "encoded word has a non-zero syndrome")
	}
	zv.Reach("encode")
}

// VerifC04EncodeUnit: a real block shape with one free data symbol at position pos, the others
// zero (8..12 symbolic bits): parity is the reference LFSR remainder, syndromes vanish.
func VerifC04EncodeUnit(field, k, r, pos int) {
	g := verifGF(field)
	word := make([]int, k+r)
	word[pos] = verifElem(g.m)
	v := word[pos]
	enc := NewReedSolomonEncoder(g.f)
	zv.Assert(enc.Encode(word, r) == nil, "Encode failed")
	zv.Assert(word[pos] == v, "Encode changed the data symbol")
	for j := 0; j < r; j++ {
		zv.Assert(refSyndrome(g, word, j) == 0, "encoded word has a non-zero syndrome")
	}
	zv.Reach("encodeunit")
}

// VerifC04Decode: encode k free data symbols, corrupt the positions in the bit set errMask with
// free non-zero magnitudes, decode: the code word must come back; with no errors nothing changes.
func VerifC04Decode(field, k, r, errMask int) {
	g := verifGF(field)
	data := verifData(g, k)
	word := make([]int, k+r)
	copy(word, data)
	zv.Assert(NewReedSolomonEncoder(g.f).Encode(word, r) == nil, "Encode failed")
	sent := append([]int(nil), word...)
	nerr := 0
	for i := 0; i < k+r; i++ {
		if errMask>>uint(i)&1 == 1 {
			e := verifElem(g.m)
			zv.Assume(e != 0)
			word[i] ^= e
			nerr++
		}
	}
	err := NewReedSolomonDecoder(g.f).Decode(word, r)
	if nerr <= r/2 {
		zv.Assert(err == nil, "Decode failed although the number of errors is within the capacity")
		ok := true
		for i := range word {
			ok = zv.And(ok, word[i] == sent[i])
		}
		zv.Assert(ok, "Decode did not restore the code word")
	}
	zv.Reach("decode")
}

// VerifC04DecodeZero: the all-zero code word of length n with r parity symbols, corrupted at up to
// three given positions (negative = unused) with free non-zero magnitudes: Decode must restore
// zeros. Full-length words (n = |F|-1) and position 0 are reachable this way; that the decoder's
// treatment of an error pattern does not depend on the data is a property of linear codes, not
// something this harness proves.
func VerifC04DecodeZero(field, n, r, p1, p2, p3 int) {
	g := verifGF(field)
	word := make([]int, n)
	nerr := 0
	for _, p := range []int{p1, p2, p3} {
		if p >= 0 {
			e := verifElem(g.m)
			zv.Assume(e != 0)
			word[p] ^= e
			nerr++
		}
	}
	err := NewReedSolomonDecoder(g.f).Decode(word, r)
	if nerr <= r/2 {
		zv.Assert(err == nil, "Decode failed although the number of errors is within the capacity")
		ok := true
		for i := range word {
			ok = zv.And(ok, word[i] == 0)
		}
		zv.Assert(ok, "Decode did not restore the code word")
	}
	zv.Reach("decodezero")
}
