package gozxing

// Helper constructors for harnesses in other packages (unexported fields).

// VerifBitArrayOfSize returns a BitArray reporting the given size (possibly symbolic) with no
// backing words: for functions that only consult GetSize().
func VerifBitArrayOfSize(n int) *BitArray { return &BitArray{bits: nil, size: n} }

// VerifBitArrayBits exposes the backing words.
func VerifBitArrayBits(b *BitArray) []uint32 { return b.bits }

// VerifBitMatrixBits exposes the backing words and row size.
func VerifBitMatrixBits(b *BitMatrix) ([]uint32, int) { return b.bits, b.rowSize }
