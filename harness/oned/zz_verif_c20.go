package oned

// C20 — run-length primitives: RecordPattern(+InReverse) against a run-length model over free
// rows; PatternMatchVariance in bit-precise float64 against exact integer arithmetic.

import (
	"math"

	"github.com/makiuchi-d/gozxing"
	zv "github.com/makiuchi-d/gozxing/zzverif"
)

func verifRow(n int) (*gozxing.BitArray, []bool) {
	row := gozxing.NewBitArray(n)
	bits := zv.Bools(n)
	for i, b := range bits {
		if b {
			row.Set(i)
		}
	}
	return row, bits
}

// model: run index of every pixel from start, lengths of the first k runs, number of runs begun
func verifRuns(bits []bool, start, k int) (runs []int, nruns int, lastIdxAtEnd int) {
	runs = make([]int, k+1)
	idx := 0
	for i := start; i < len(bits); i++ {
		if i > start && bits[i] != bits[i-1] {
			idx++
		}
		for j := 0; j <= k; j++ {
			if idx == j {
				runs[j]++
			}
		}
	}
	return runs, idx + 1, idx
}

// VerifC20Record: a free row of n pixels, every start (including out of range), k counters.
func VerifC20Record(n, k int) {
	row, bits := verifRow(n)
	for start := 0; start <= n+1; start++ {
		counters := make([]int, k)
		for i := range counters {
			counters[i] = 99 // must be overwritten
		}
		err := RecordPattern(row, start, counters)
		if start >= n {
			_, isNF := err.(gozxing.NotFoundException)
			zv.Assert(err != nil && isNF, "start at or beyond the end must be NotFound")
			continue
		}
		runs, nruns, _ := verifRuns(bits, start, k)
		// success iff k runs were completed (a (k+1)-th began) or exactly k runs reach the row end
		want := nruns >= k
		zv.Assert((err == nil) == want, "RecordPattern succeeds exactly when k runs are available")
		if err != nil {
			_, isNF := err.(gozxing.NotFoundException)
			zv.Assert(isNF, "error kind must be NotFoundException")
		} else {
			ok := true
			for j := 0; j < k; j++ {
				ok = zv.And(ok, counters[j] == runs[j])
			}
			zv.Assert(ok, "RecordPattern counters differ from the run lengths")
		}
	}
	zv.Reach("record")
}

// VerifC20RecordReverse: from a position inside the row, the k runs that end just before the
// run containing the position... (the function walks back over k+1 transitions and then records
// forward). Model: find the start of the run that is k transitions back.
func VerifC20RecordReverse(n, k int) {
	row, bits := verifRow(n)
	for start := 0; start < n; start++ {
		counters := make([]int, k)
		err := RecordPatternInReverse(row, start, counters)
		// transitions strictly left of start (between i-1 and i for i in 1..start)
		trans := 0
		for i := 1; i <= start; i++ {
			if bits[i] != bits[i-1] {
				trans++
			}
		}
		// it needs k+1 transitions to the left: then records k runs starting right after the
		// (k+1)-th transition counted from start going left
		if trans < k+1 {
			zv.Assert(err != nil, "too few transitions to the left must be NotFound")
			continue
		}
		// position p = index just after the (k+1)-th transition going left
		p := 0
		cnt := 0
		for i := start; i >= 1; i-- {
			if bits[i] != bits[i-1] {
				cnt++
				if cnt == k+1 && p == 0 {
					p = i
				}
			}
		}
		pc := zv.Concrete(p)
		runs, nruns, _ := verifRuns(bits, pc, k)
		zv.Assert(nruns >= k, "model")
		zv.Assert(err == nil, "RecordPatternInReverse failed although k+1 transitions exist to the left")
		ok := true
		for j := 0; j < k; j++ {
			ok = zv.And(ok, counters[j] == runs[j])
		}
		zv.Assert(ok, "RecordPatternInReverse counters differ from the run lengths")
	}
	zv.Reach("recordreverse")
}

var verifPatterns = [][]int{
	{1, 1, 1},             // UPC/EAN start/end guard
	{3, 2, 1, 1},          // UPC/EAN L digit 0
	{1, 1, 3, 2},          // UPC/EAN L digit 5 / G reversed
	{1, 3, 1, 2},          // UPC/EAN L digit 8
	{1, 1, 1, 1, 1},       // EAN middle guard
	{1, 1, 2, 2, 1},       // ITF digit 0 (w=2)
	{1, 1, 3, 3, 1},       // ITF digit 0 (w=3)
	{2, 1, 2, 2, 2, 2},    // Code 128 value 0
	{2, 1, 1, 2, 3, 2},    // Code 128 start C
	{3, 8, 2, 1},          // RSS finder
	{1, 1, 1, 1, 1, 1},    // UPC-E end
	{1, 1, 1, 1},          // ITF start
}

func verifCounters(k, bitsPer int) []int {
	c := make([]int, k)
	for i := range c {
		if bitsPer <= 4 {
			// 4-bit inputs keep the whole input space small enough for the truth-table fallback
			c[i] = int(zv.Digit() & byte(1<<uint(bitsPer)-1))
		} else {
			c[i] = int(zv.Byte() & byte(1<<uint(bitsPer)-1))
		}
	}
	return c
}

func verifSum(xs []int) int {
	s := 0
	for _, x := range xs {
		s += x
	}
	return s
}

// VerifC20Inf: fewer pixels than pattern modules must score +Inf.
func VerifC20Inf(pat, bitsPer, num, den int) {
	p := verifPatterns[pat]
	c := verifCounters(len(p), bitsPer)
	zv.Except("C20-variance-too-small-no-return", true)
	zv.Assume(verifSum(c) < verifSum(p))
	v := PatternMatchVariance(c, p, float64(num)/float64(den))
	zv.Assert(math.IsInf(v, 1), "fewer pixels than pattern modules must score +Inf")
	zv.Reach("inf")
}

// VerifC20Zero: an exact integer multiple of the pattern scores 0.
func VerifC20Zero(pat, maxK, num, den int) {
	p := verifPatterns[pat]
	k := zv.IntRange(1, maxK)
	c := make([]int, len(p))
	for i := range c {
		c[i] = k * p[i]
	}
	v := PatternMatchVariance(c, p, float64(num)/float64(den))
	zv.Assert(v == 0, "an exact multiple of the pattern must score 0")
	zv.Reach("zero")
}

// VerifC20Formula: with d_i = |c_i*P - p_i*T| (exact integers): any  den*d_i > num*T + 1  gives
// +Inf; all  den*d_i < num*T - 1  give  sum(d_i)/(P*T)  within 1e-9.
func VerifC20Formula(pat, bitsPer, num, den int) {
	p := verifPatterns[pat]
	c := verifCounters(len(p), bitsPer)
	P, T := verifSum(p), verifSum(c)
	zv.Assume(T >= P) // the too-small case is VerifC20Inf
	v := PatternMatchVariance(c, p, float64(num)/float64(den))
	someOver, allUnder := false, true
	sumD := 0
	for i := range p {
		d := c[i]*P - p[i]*T
		if d < 0 {
			d = -d
		}
		sumD += d
		someOver = zv.Or(someOver, den*d > num*T+1)
		allUnder = zv.And(allUnder, den*d < num*T-1)
	}
	zv.Assert(zv.Implies(someOver, math.IsInf(v, 1)), "a run beyond the individual variance must score +Inf")
	ref := float64(sumD) / float64(P*T)
	diff := v - ref
	zv.Assert(zv.Implies(allUnder, zv.And(diff <= 1e-9, diff >= -1e-9)), "score differs from total deviation / total width")
	zv.Reach("formula")
}

// VerifC20Scale: scaling all runs by the same factor leaves a finite score unchanged.
func VerifC20Scale(pat, bitsPer, factor, num, den int) {
	p := verifPatterns[pat]
	c := verifCounters(len(p), bitsPer)
	zv.Assume(verifSum(c) >= verifSum(p))
	c2 := make([]int, len(c))
	for i := range c {
		c2[i] = c[i] * factor
	}
	mv := float64(num) / float64(den)
	v1 := PatternMatchVariance(c, p, mv)
	v2 := PatternMatchVariance(c2, p, mv)
	bothFinite := zv.And(!math.IsInf(v1, 0), !math.IsInf(v2, 0))
	diff := v1 - v2
	zv.Assert(zv.Implies(bothFinite, zv.And(diff <= 1e-9, diff >= -1e-9)), "score changes under uniform scaling")
	zv.Reach("scale")
}

// VerifC20Boundary: for patterns whose module count P is a power of two and the limit 1/2 every
// quantity in the implementation is exact in float64 (counters < 2^k), so the threshold itself can
// be decided: a run deviating by exactly the allowed individual variance is still within it.
func VerifC20Boundary(pat, bitsPer int) {
	p := verifPatterns[pat]
	c := verifCounters(len(p), bitsPer)
	P, T := verifSum(p), verifSum(c)
	zv.Assume(T >= P)
	v := PatternMatchVariance(c, p, 0.5)
	allWithin := true
	sumD := 0
	for i := range p {
		d := c[i]*P - p[i]*T
		if d < 0 {
			d = -d
		}
		sumD += d
		allWithin = zv.And(allWithin, 2*d <= T) // d/P <= 0.5*T/P
	}
	ref := float64(sumD) / float64(P*T)
	diff := v - ref
	zv.Assert(zv.Implies(allWithin, zv.And(diff <= 1e-9, diff >= -1e-9)), "a run deviating by exactly the allowed variance must still be scored, not rejected")
	zv.Assert(zv.Implies(!allWithin, math.IsInf(v, 1)), "a run beyond the allowed variance must score +Inf")
	zv.Reach("boundary")
}
