package oned

// C12 — the 1-D writers are total: any content, size and margin give a matrix or an error.

import (
	"github.com/makiuchi-d/gozxing"
	zv "github.com/makiuchi-d/gozxing/zzverif"
)

func verifWriter(i int) (gozxing.Writer, gozxing.BarcodeFormat) {
	switch i {
	case 0:
		return NewEAN13Writer(), gozxing.BarcodeFormat_EAN_13
	case 1:
		return NewEAN8Writer(), gozxing.BarcodeFormat_EAN_8
	case 2:
		return NewUPCAWriter(), gozxing.BarcodeFormat_UPC_A
	case 3:
		return NewUPCEWriter(), gozxing.BarcodeFormat_UPC_E
	case 4:
		return NewCode39Writer(), gozxing.BarcodeFormat_CODE_39
	case 5:
		return NewCode93Writer(), gozxing.BarcodeFormat_CODE_93
	case 6:
		return NewCode128Writer(), gozxing.BarcodeFormat_CODE_128
	case 7:
		return NewITFWriter(), gozxing.BarcodeFormat_ITF
	}
	return NewCodaBarWriter(), gozxing.BarcodeFormat_CODABAR
}

// a valid sample content per writer (so that the rendering stage is reached)
var verifSample = [9]string{"590123412345", "9638507", "03600029145", "0123456", "A1", "a~", "Ab1", "1234", "A12B"}

func verifCheckMatrix(m *gozxing.BitMatrix, err error, width, height int) {
	zv.Assert((m != nil) != (err != nil), "Encode must return exactly one of matrix and error")
	if err == nil {
		w, h := width, height
		if w < 1 {
			w = 1
		}
		if h < 1 {
			h = 1
		}
		zv.Assert(zv.And(m.GetWidth() >= w, m.GetHeight() >= h), "the matrix is smaller than the requested size")
	}
}

// VerifC12OneDSizes: valid content, requested size (width, height) concrete per task, MARGIN free
// in [-70, 30] (as int, or as a decimal string when asString), every writer.
func VerifC12OneDSizes(wi, width, height int, asString bool) {
	w, f := verifWriter(wi)
	hints := map[gozxing.EncodeHintType]interface{}{}
	margin := zv.IntRange(-70, 30)
	margin = zv.Concrete(margin) // the margin decides image shapes: one path per value
	if asString {
		hints[gozxing.EncodeHintType_MARGIN] = itoaC12(margin)
	} else {
		hints[gozxing.EncodeHintType_MARGIN] = margin
	}
	var code []bool
	var e2 error
	if enc, ok := w.(interface {
		encode(string) ([]bool, error)
	}); ok {
		code, e2 = enc.encode(verifSample[wi])
	} else {
		// the UPC-A writer delegates to the EAN-13 writer with a leading zero
		code, e2 = ean13Encoder{}.encode("0" + verifSample[wi])
	}
	zv.Assert(e2 == nil, "sample content must be valid")
	zv.Except("C12-oned-margin-cancels-width", margin == -len(code))
	m, err := w.Encode(verifSample[wi], f, width, height, hints)
	verifCheckMatrix(m, err, width, height)
	if err == nil {
		zv.Except("C12-oned-negative-margin-narrow", margin < 0)
		zv.Assert(m.GetWidth() >= len(code), "the matrix is narrower than the symbol it depicts")
	}
	zv.Reach("c12sizes")
}

func itoaC12(v int) string {
	if v < 0 {
		return "-" + itoaC12(-v)
	}
	if v < 10 {
		return string(rune('0' + v))
	}
	return itoaC12(v/10) + string(rune('0'+v%10))
}

// VerifC12OneDContent: n free content bytes (full byte range), default size and margin; also the
// empty content and every BarcodeFormat value.
func VerifC12OneDContent(wi, n int) {
	w, f := verifWriter(wi)
	content := zv.String(n)
	m, err := w.Encode(content, f, 0, 0, nil)
	verifCheckMatrix(m, err, 0, 0)
	if n == 0 {
		zv.Assert(err != nil, "empty content must be refused")
	}
	zv.Reach("c12content")
}

// VerifC12OneDFormats: a writer asked for each of the 17 formats.
func VerifC12OneDFormats(wi int) {
	w, f := verifWriter(wi)
	for g := gozxing.BarcodeFormat(0); g < 17; g++ {
		m, err := w.Encode(verifSample[wi], g, 10, 10, nil)
		verifCheckMatrix(m, err, 10, 10)
		if g != f && !(wi == 2 && g == gozxing.BarcodeFormat_UPC_A) {
			zv.Assert(err != nil, "a foreign format must be refused")
		}
	}
	zv.Reach("c12formats")
}
