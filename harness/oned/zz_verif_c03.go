package oned

// C03 — a written 1-D barcode reads back as the same content and format.

import (
	"github.com/makiuchi-d/gozxing"
	zv "github.com/makiuchi-d/gozxing/zzverif"
)

func verifReader(i int) gozxing.Reader {
	switch i {
	case 0:
		return NewEAN13Reader()
	case 1:
		return NewEAN8Reader()
	case 2:
		return NewUPCAReader()
	case 3:
		return NewUPCEReader()
	case 4:
		return NewCode39Reader()
	case 5:
		return NewCode93Reader()
	case 6:
		return NewCode128Reader()
	case 7:
		return NewITFReader()
	}
	return NewCodaBarReader()
}

// verifReadMatrix: the normal reading path on the rendered matrix (image -> luminance -> hybrid
// binariser -> row scanning).
func verifReadMatrix(r gozxing.Reader, m *gozxing.BitMatrix, hints map[gozxing.DecodeHintType]interface{}) (*gozxing.Result, error) {
	bmp, err := gozxing.NewBinaryBitmapFromImage(m)
	if err != nil {
		return nil, err
	}
	return r.Decode(bmp, hints)
}

// verifCanonical: what the reader is expected to return for accepted content (check digit appended
// where the writer computes it).
func verifCanonical(wi int, content string) string {
	switch wi {
	case 0, 1, 2:
		want := [3]int{13, 8, 12}[wi]
		if len(content) == want-1 {
			return content + string(rune('0'+refCheckDigit(verifDigitsOf(content))))
		}
	case 3:
		if len(content) == 7 {
			d := verifDigitsOf(content)
			return content + string(rune('0'+refCheckDigit(verifUPCEExpand(d))))
		}
	}
	return content
}

func verifDigitsOf(s string) []int {
	d := make([]int, len(s))
	for i := range d {
		d[i] = int(s[i] - '0')
	}
	return d
}

// verifUPCEExpand: number system + six UPC-E digits -> the eleven UPC-A payload digits.
func verifUPCEExpand(d []int) []int {
	m, last := d[1:7], d[6]
	switch {
	case last <= 2:
		return []int{d[0], m[0], m[1], last, 0, 0, 0, 0, m[2], m[3], m[4]}
	case last == 3:
		return []int{d[0], m[0], m[1], m[2], 0, 0, 0, 0, 0, m[3], m[4]}
	case last == 4:
		return []int{d[0], m[0], m[1], m[2], m[3], 0, 0, 0, 0, 0, m[4]}
	}
	return []int{d[0], m[0], m[1], m[2], m[3], m[4], 0, 0, 0, 0, last}
}

func verifHints(margin int) map[gozxing.EncodeHintType]interface{} {
	if margin < 0 {
		return nil
	}
	return map[gozxing.EncodeHintType]interface{}{gozxing.EncodeHintType_MARGIN: margin}
}

// stripped: the Codabar reader drops the start/stop characters unless asked to keep them.
func verifExpect(wi int, content string) string {
	if wi == 8 {
		return content[1 : len(content)-1]
	}
	return verifCanonical(wi, content)
}

// VerifC03Concrete: the sample content of writer wi, rendered at the requested size and margin
// (margin < 0: default), read back by the matching reader through the image path.
func VerifC03Concrete(wi, width, height, margin int) {
	zv.Except("C03-upce-default-margin-unreadable", wi == 3 && margin < 14)
	w, f := verifWriter(wi)
	content := verifTemplate[wi] // ITF: a length the reader accepts by default (6, 8, .., 14)
	m, err := w.Encode(content, f, width, height, verifHints(margin))
	zv.Assert(err == nil && m != nil, "sample content is accepted")
	res, err := verifReadMatrix(verifReader(wi), m, nil)
	zv.Assert(err == nil && res != nil, "the rendered barcode is read")
	zv.Assert(res.GetText() == verifExpect(wi, content), "read(write(c)) == canonical(c)")
	zv.Assert(res.GetBarcodeFormat() == f, "format")
	zv.Reach("c03concrete")
}

// the alphabets a free character is drawn from (index chosen by the solver)
const verifAlpha39 = "0123456789ABCDEFGHIJKLMNOPQRSTUVWXYZ-. $/+%"
const verifAlphaCodabar = "0123456789-$:/.+"

// templates: a valid content per writer with room for free characters
var verifTemplate = [11]string{"590123412345", "9638507", "03600029145", "0123456", "A1-Z. 9", "a~Code 93", "Ab1x23456z", "12345678", "A1234-5B", "a1-Z. 9~", "\nAB\x02CD12"}

// verifFreeChar: a free character of writer wi's alphabet at position pos.
func verifFreeChar(wi, pos, n int) byte {
	switch wi {
	case 0, 1, 2, 7:
		x := zv.Byte()
		zv.Assume(x <= 9)
		return '0' + x
	case 3:
		x := zv.Byte()
		if pos == 0 {
			zv.Assume(x <= 1) // number system 0 or 1
		} else {
			zv.Assume(x <= 9)
		}
		return '0' + x
	case 4:
		k := zv.IntRange(0, len(verifAlpha39)-1)
		return verifAlpha39[k]
	case 8:
		if pos == 0 || pos == n-1 {
			return 'A' + byte(zv.IntRange(0, 3))
		}
		k := zv.IntRange(0, len(verifAlphaCodabar)-1)
		return verifAlphaCodabar[k]
	}
	x := zv.Byte() // Code 93, Code 128, Code 39 full ASCII
	zv.Assume(x <= 127)
	return x
}

// verifFreeContent: the template of writer wi with free characters at i and (if >= 0) j.
func verifFreeContent(wi, i, j int) string {
	t := []byte(verifTemplate[wi])
	n := len(t)
	if i < 0 {
		return string(t)
	}
	t[i] = verifFreeChar(wi, i, n)
	if j >= 0 {
		t[j] = verifFreeChar(wi, j, n)
	}
	return string(t)
}

func verifPair(wi int) (gozxing.Writer, gozxing.BarcodeFormat, gozxing.Reader, int) {
	if wi == 9 {
		w, f := verifWriter(4)
		return w, f, NewCode39ReaderWithFlags(false, true), 4
	}
	if wi == 10 { // Code 128 with control characters: code set A is active around the free character
		w, f := verifWriter(6)
		return w, f, verifReader(6), 6
	}
	w, f := verifWriter(wi)
	return w, f, verifReader(wi), wi
}

// VerifC03Free: the template content of writer wi (9 = Code 39 in full-ASCII mode, 10 = Code 128 in
// code set A context) with the
// characters at positions i and j (j < 0: only i) free over the symbology's alphabet; written with
// the given margin (< 0: default) at the requested size (0: natural), read back through the image path.
func VerifC03Free(wi, i, j, margin, width, height int) {
	zv.Except("C03-upce-default-margin-unreadable", wi == 3 && margin < 14)
	content := verifFreeContent(wi, i, j)
	w, f, r, wsel := verifPair(wi)
	m, err := w.Encode(content, f, width, height, verifHints(margin))
	zv.Assert(err == nil && m != nil, "content over the alphabet is accepted")
	if err != nil {
		return
	}
	res, err := verifReadMatrix(r, m, nil)
	zv.Assert(err == nil && res != nil, "the rendered barcode is read")
	if err != nil {
		return
	}
	zv.Assert(res.GetText() == verifExpect(wsel, content), "read(write(c)) == canonical(c)")
	zv.Assert(res.GetBarcodeFormat() == f, "format")
	_, rotated := res.GetResultMetadata()[gozxing.ResultMetadataType_ORIENTATION]
	zv.Assert(!rotated, "an upright barcode carries no orientation")
	zv.Reach("c03free")
}

// VerifC03Multi: UPC/EAN content (wi 0..3) read by the multi-format UPC/EAN reader. mode 0: the
// reader is told to look for the written format only -> exactly that content and format. mode 1: the
// reader looks for all four formats -> the same, except that an EAN-13 number with a leading zero is
// reported as the UPC-A number it is (the two are the same symbol). Without POSSIBLE_FORMATS the
// reader reports UPC-A symbols as EAN-13 with a leading zero (pinned by the repository's own
// TestMultiFormatUPCEANReader_DecodeRow), which this harness does not exercise.
func VerifC03Multi(wi, i, j, margin, mode int) {
	zv.Except("C03-upce-default-margin-unreadable", wi == 3 && margin < 14)
	content := verifFreeContent(wi, i, j)
	w, f := verifWriter(wi)
	m, err := w.Encode(content, f, 0, 0, verifHints(margin))
	zv.Assert(err == nil && m != nil, "content is accepted")
	if err != nil {
		return
	}
	formats := []gozxing.BarcodeFormat{f}
	if mode == 1 {
		formats = []gozxing.BarcodeFormat{gozxing.BarcodeFormat_EAN_13, gozxing.BarcodeFormat_EAN_8, gozxing.BarcodeFormat_UPC_A, gozxing.BarcodeFormat_UPC_E}
	}
	hints := map[gozxing.DecodeHintType]interface{}{gozxing.DecodeHintType_POSSIBLE_FORMATS: formats}
	res, err := verifReadMatrix(NewMultiFormatUPCEANReader(hints), m, hints)
	zv.Assert(err == nil && res != nil, "the multi-format UPC/EAN reader reads it")
	if err != nil {
		return
	}
	want := verifCanonical(wi, content)
	if mode == 1 && wi == 0 && want[0] == '0' {
		want, f = want[1:], gozxing.BarcodeFormat_UPC_A
	}
	zv.Assert(res.GetText() == want, "multi: read(write(c)) == canonical(c)")
	zv.Assert(res.GetBarcodeFormat() == f, "multi: format")
	zv.Reach("c03multi")
}

// VerifC09OneD: the written barcode (height 24) turned by rot quarter turns (BitMatrix.Rotate90 rot
// times): 2 = upside down -> same content with ORIENTATION 180 (no hint needed); 1, 3 = sideways ->
// same content with TRY_HARDER; without TRY_HARDER a sideways barcode gives the content or an error.
func VerifC09OneD(wi, i, j, rot int) {
	content := verifFreeContent(wi, i, j)
	w, f, r, wsel := verifPair(wi)
	margin := -1
	if wi == 3 {
		margin = 14
	}
	m, err := w.Encode(content, f, 0, 24, verifHints(margin))
	zv.Assert(err == nil && m != nil, "content is accepted")
	if err != nil {
		return
	}
	for k := 0; k < rot; k++ {
		m.Rotate90()
	}
	var hints map[gozxing.DecodeHintType]interface{}
	if rot%2 == 1 {
		hints = map[gozxing.DecodeHintType]interface{}{gozxing.DecodeHintType_TRY_HARDER: true}
	}
	res, err := verifReadMatrix(r, m, hints)
	zv.Assert(err == nil && res != nil, "the turned barcode is read")
	if err != nil {
		return
	}
	zv.Assert(res.GetText() == verifExpect(wsel, content), "turned: read(write(c)) == canonical(c)")
	zv.Assert(res.GetBarcodeFormat() == f, "turned: format")
	o, has := res.GetResultMetadata()[gozxing.ResultMetadataType_ORIENTATION]
	if rot == 2 {
		zv.Assert(has && o.(int) == 180, "an upside-down barcode is reported with orientation 180")
	} else if rot%2 == 1 {
		zv.Assert(has && (o.(int) == 90 || o.(int) == 270), "a sideways barcode is reported with orientation 90 or 270")
	}
	zv.Reach("c09oned")
}

// VerifC03Reject: the template of writer wi with one byte at position i free over the whole byte
// range: the writer accepts it iff the byte belongs to the symbology's alphabet. len > 0 instead
// truncates/extends the (digit) template to that length: accepted iff the length is one the
// symbology allows.
func VerifC03Reject(wi, i, length int) {
	t := []byte(verifTemplate[wi])
	accept := true
	if length > 0 {
		for len(t) < length {
			t = append(t, '0'+byte(len(t)%10))
		}
		t = t[:length]
		switch wi {
		case 0:
			accept = length == 12 // 13 needs the right check digit: C10
		case 1:
			accept = length == 7
		case 2:
			accept = length == 11
		case 3:
			accept = length == 7
		case 7:
			accept = length%2 == 0 && length <= 80
		}
	} else {
		b := zv.Byte()
		t[i] = b
		switch wi {
		case 0, 1, 2, 7:
			accept = b >= '0' && b <= '9'
		case 3:
			if i == 0 {
				accept = b == '0' || b == '1'
			} else {
				accept = b >= '0' && b <= '9'
			}
		case 4, 5:
			accept = b <= 127
		case 6:
			zv.Assume(b < 0xf1 || b > 0xf4) // FNC1..FNC4 escapes
			accept = b <= 127
		}
	}
	w, f := verifWriter(wi)
	m, err := w.Encode(string(t), f, 0, 0, nil)
	zv.Assert((err == nil) == accept, "the writer accepts exactly the content of the right length over the alphabet")
	zv.Assert((m != nil) == (err == nil), "matrix xor error")
	zv.Reach("c03reject")
}
