package oned

// C06 — helper decoders of the 1-D readers are total on any input.

import (
	"github.com/makiuchi-d/gozxing"
	zv "github.com/makiuchi-d/gozxing/zzverif"
)

func VerifC06Ext39(n int) {
	enc := zv.Bytes(n)
	s, err := code39DecodeExtended(enc)
	if err != nil {
		_, isF := err.(gozxing.FormatException)
		zv.Assert(isF, "errors must be FormatException")
		_ = s
	}
	zv.Reach("ext39")
}

func VerifC06Ext93(n int) {
	enc := zv.Bytes(n)
	s, err := code93DecodeExtended(enc)
	if err != nil {
		_, isF := err.(gozxing.FormatException)
		zv.Assert(isF, "errors must be FormatException")
		_ = s
	}
	zv.Reach("ext93")
}

// VerifC06Truncated: the template of writer wi (one free character at position i; none if i < 0) rendered into a
// row and cut after every possible number of modules (with q quiet modules in front): the matching
// reader's DecodeRow returns a result or an error — never a panic, whatever the row width.
func VerifC06Truncated(wi, i, q int) {
	content := verifFreeContent(wi, i, -1)
	_, _, r, _ := verifPair(wi)
	var enc encoder
	switch wi {
	case 0:
		enc = ean13Encoder{}
	case 1:
		enc = ean8Encoder{}
	case 3:
		enc = upcEEncoder{}
	case 4, 9:
		enc = code39Encoder{}
	case 5:
		enc = code93Encoder{}
	case 6, 10:
		enc = code128Encoder{}
	case 7:
		enc = itfEncoder{}
	default:
		enc = codabarEncoder{}
	}
	code, err := enc.encode(content)
	zv.Assert(err == nil, "content accepted")
	rd, ok := r.(RowDecoder)
	zv.Assert(ok, "row decoder")
	try := func(q, cut int) {
		row := gozxing.NewBitArray(q + cut)
		for k := 0; k < cut; k++ {
			if code[k] {
				row.Set(q + k)
			}
		}
		res, e := rd.DecodeRow(0, row, nil)
		zv.Assert((res != nil) != (e != nil), "result xor error")
	}
	for cut := 1; cut <= len(code); cut++ {
		try(q, cut)
		if cut > len(code)-12 {
			// near the end of the symbol: every alignment of the row end to the 32-bit words
			for qq := 0; qq < 32; qq++ {
				try(qq, cut)
			}
		}
	}
	zv.Reach("c06truncated")
}

// VerifC06Code39Short: a Code 39 symbol with n free data characters (n = 0: start immediately
// followed by stop), 10 quiet modules on each side, read by the Code 39 reader with the check-digit
// and extended-mode flags given: result or error, never a panic.
func VerifC06Code39Short(n, checkDigit, extended int) {
	t := make([]byte, n)
	for i := range t {
		t[i] = verifAlpha39[zv.IntRange(0, len(verifAlpha39)-1)]
	}
	code, err := code39Encoder{}.encode(string(t))
	zv.Assert(err == nil, "encode")
	row := gozxing.NewBitArray(len(code) + 20)
	for k, b := range code {
		if b {
			row.Set(10 + k)
		}
	}
	rd := NewCode39ReaderWithFlags(checkDigit != 0, extended != 0).(RowDecoder)
	res, e := rd.DecodeRow(0, row, nil)
	zv.Assert((res != nil) != (e != nil), "result xor error")
	if e != nil {
		_, isReaderErr := e.(gozxing.ReaderException)
		zv.Assert(isReaderErr, "reader exceptions only")
	}
	zv.Reach("c06code39short")
}
