package oned

// C06 — helper decoders of the 1-D readers are total on any input.

import (
	"github.com/makiuchi-d/gozxing"
	zv "github.com/makiuchi-d/gozxing/zzverif"
)

func VerifC06Ext39(n int) {
	enc := zv.Bytes(n)
	s, err := code39DecodeExtended(enc)
	if err != nil {
		_, isF := err.(gozxing.FormatException)
		zv.Assert(isF, "errors must be FormatException")
		_ = s
	}
	zv.Reach("ext39")
}

func VerifC06Ext93(n int) {
	enc := zv.Bytes(n)
	s, err := code93DecodeExtended(enc)
	if err != nil {
		_, isF := err.(gozxing.FormatException)
		zv.Assert(isF, "errors must be FormatException")
		_ = s
	}
	zv.Reach("ext93")
}
