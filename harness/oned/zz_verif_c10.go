package oned

// C10 — check digits: UPC/EAN mod-10 for all digits at once, single substitutions, UPC-E
// expansion / suppression, parity tables, writers' acceptance of supplied check digits.

import (
	"github.com/makiuchi-d/gozxing"
	zv "github.com/makiuchi-d/gozxing/zzverif"
)

// verifDigits returns n free decimal digits (as values 0..9) and their ASCII string.
func verifDigits(n int) ([]int, string) {
	d := make([]int, n)
	b := make([]byte, n)
	for i := range d {
		x := zv.Digit()
		zv.Assume(x <= 9)
		d[i] = int(x)
		b[i] = '0' + x
	}
	return d, string(b)
}

// refCheckDigit: GS1 mod-10: weights 3,1,3,... starting from the rightmost payload digit.
func refCheckDigit(d []int) int {
	sum := 0
	w := 3
	for i := len(d) - 1; i >= 0; i-- {
		sum += w * d[i]
		w = 4 - w
	}
	return (10 - sum%10) % 10
}

// VerifC10Checksum: the check digit of n free payload digits equals the reference; a supplied
// digit verifies iff it equals the reference.
func VerifC10Checksum(n int) {
	d, s := verifDigits(n)
	got, err := upceanReader_getStandardUPCEANChecksum(s)
	zv.Assert(err == nil, "digits must be accepted")
	zv.Assert(got == refCheckDigit(d), "check digit differs from the mod-10 weight-3/1 formula")
	c := zv.Byte()
	zv.Assume(c <= 9)
	ok, err2 := upceanReader_checkStandardUPCEANChecksum(s + string([]byte{'0' + c}))
	zv.Assert(err2 == nil && ok == (int(c) == refCheckDigit(d)), "a supplied check digit verifies iff it is the computed one")
	zv.Reach("checksum")
}

// VerifC10Substitution: in a number of n digits (check digit included) that verifies, replacing
// the digit at position pos by any other digit makes it fail.
func VerifC10Substitution(n, pos int) {
	_, s := verifDigits(n)
	ok, err := upceanReader_checkStandardUPCEANChecksum(s)
	zv.Assume(err == nil && ok)
	r := zv.Byte()
	zv.Assume(r <= 9 && '0'+r != s[pos])
	b := []byte(s)
	b[pos] = '0' + r
	ok2, err2 := upceanReader_checkStandardUPCEANChecksum(string(b))
	zv.Assert(err2 == nil && !ok2, "a single-digit substitution still verifies")
	zv.Reach("substitution")
}

// VerifC10NonDigit: a non-digit anywhere is an error, never a panic.
func VerifC10NonDigit(n, pos int) {
	_, s := verifDigits(n)
	x := zv.Byte()
	zv.Assume(x < '0' || x > '9')
	b := []byte(s)
	b[pos] = x
	_, err := upceanReader_getStandardUPCEANChecksum(string(b))
	zv.Assert(err != nil, "a non-digit must be refused")
	zv.Reach("nondigit")
}

// refSuppress: zero-suppression of an 11-digit UPC-A payload (number system 0 or 1) into the six
// UPC-E digits, by the GS1 rules; ok=false if the number is not suppressible.
// d = [ns, m1..m5, p1..p5]
func refSuppress(d []int) (e [6]int, rule int, ok bool) {
	m, p := d[1:6], d[6:11]
	switch {
	case m[2] <= 2 && m[3] == 0 && m[4] == 0 && p[0] == 0 && p[1] == 0:
		return [6]int{m[0], m[1], p[2], p[3], p[4], m[2]}, 0, true
	case m[3] == 0 && m[4] == 0 && p[0] == 0 && p[1] == 0 && p[2] == 0:
		return [6]int{m[0], m[1], m[2], p[3], p[4], 3}, 1, true
	case m[4] == 0 && p[0] == 0 && p[1] == 0 && p[2] == 0 && p[3] == 0:
		return [6]int{m[0], m[1], m[2], m[3], p[4], 4}, 2, true
	case p[0] == 0 && p[1] == 0 && p[2] == 0 && p[3] == 0 && p[4] >= 5:
		return [6]int{m[0], m[1], m[2], m[3], m[4], p[4]}, 3, true
	}
	return e, -1, false
}

// VerifC10ExpandSuppress: expand(suppress(n)) == n for every suppressible UPC-A number; rule
// selects which suppression rule the number is shaped for (keeps the shape concrete).
func VerifC10ExpandSuppress(rule int) {
	d, _ := verifDigits(11)
	zv.Assume(d[0] <= 1)
	// shape the number for the rule
	switch rule {
	case 0:
		zv.Assume(d[3] <= 2 && d[4] == 0 && d[5] == 0 && d[6] == 0 && d[7] == 0)
	case 1:
		zv.Assume(d[3] >= 3 && d[4] == 0 && d[5] == 0 && d[6] == 0 && d[7] == 0 && d[8] == 0)
	case 2:
		zv.Assume(d[4] != 0 && d[5] == 0 && d[6] == 0 && d[7] == 0 && d[8] == 0 && d[9] == 0)
	default:
		zv.Assume(d[5] != 0 && d[6] == 0 && d[7] == 0 && d[8] == 0 && d[9] == 0 && d[10] >= 5)
	}
	e, r, ok := refSuppress(d)
	zv.Assert(ok && r == rule, "reference suppression rule")
	upce := make([]byte, 7)
	upce[0] = '0' + byte(d[0])
	for i := 0; i < 6; i++ {
		upce[1+i] = '0' + byte(e[i])
	}
	got := convertUPCEtoUPCA(string(upce))
	zv.Assert(len(got) == 11, "expanded length")
	same := true
	for i := 0; i < 11; i++ {
		same = zv.And(same, got[i] == '0'+byte(d[i]))
	}
	zv.Assert(same, "expand(suppress(n)) != n")
	// with a check digit appended it is carried over
	got8 := convertUPCEtoUPCA(string(upce) + "7")
	zv.Assert(len(got8) == 12 && got8[11] == '7', "check digit must be carried over by the expansion")
	zv.Reach("expandsuppress")
}

// VerifC10UPCEReaderChecksum: the UPC-E reader's checksum test is the UPC-A test on the expansion.
func VerifC10UPCEReaderChecksum(last int) {
	d, _ := verifDigits(8)
	zv.Assume(d[0] <= 1 && d[6] == last)
	b := make([]byte, 8)
	for i := range b {
		b[i] = '0' + byte(d[i])
	}
	r := &upcEReader{}
	ok, err := r.checkChecksum(string(b))
	// reference: expand by the rules, then mod-10 on the 11 payload digits
	var x []int
	m := d[1:7]
	switch {
	case last <= 2:
		x = []int{d[0], m[0], m[1], last, 0, 0, 0, 0, m[2], m[3], m[4]}
	case last == 3:
		x = []int{d[0], m[0], m[1], m[2], 0, 0, 0, 0, 0, m[3], m[4]}
	case last == 4:
		x = []int{d[0], m[0], m[1], m[2], m[3], 0, 0, 0, 0, 0, m[4]}
	default:
		x = []int{d[0], m[0], m[1], m[2], m[3], m[4], 0, 0, 0, 0, last}
	}
	zv.Assert(err == nil && ok == (d[7] == refCheckDigit(x)), "UPC-E checksum must be computed on the expanded UPC-A number")
	zv.Reach("upcechecksum")
}

// typed from the GS1 General Specifications (G = 1, most significant = leftmost symbol character)
var refEAN13Parity = [10]int{0x00, 0x0B, 0x0D, 0x0E, 0x13, 0x19, 0x1C, 0x15, 0x16, 0x1A}
var refUPCEParity = [2][10]int{
	{0x38, 0x34, 0x32, 0x31, 0x2C, 0x26, 0x23, 0x2A, 0x29, 0x25},
	{0x07, 0x0B, 0x0D, 0x0E, 0x13, 0x19, 0x1C, 0x15, 0x16, 0x1A},
}

// VerifC10ParityTables: every 6-bit parity pattern decodes to the digit(s) the standard assigns,
// and to nothing else.
func VerifC10ParityTables() {
	p := int(zv.Byte() & 0x3f)
	d, err := ean13Reader_determineFirstDigit(p)
	want, found := 0, false
	for i := 9; i >= 0; i-- {
		if refEAN13Parity[i] == p {
			want, found = i, true
		}
	}
	zv.Assert((err == nil) == found, "EAN-13 parity pattern accepted iff the standard defines it")
	if err == nil {
		zv.Assert(int(d) == want, "EAN-13 first digit for the parity pattern")
	}
	res, err2 := determineNumSysAndCheckDigit([]byte{'x', '1', '2', '3', '4', '5', '6'}, p)
	ns, cd, found2 := 0, 0, false
	for n := 1; n >= 0; n-- {
		for c := 9; c >= 0; c-- {
			if refUPCEParity[n][c] == p {
				ns, cd, found2 = n, c, true
			}
		}
	}
	zv.Assert((err2 == nil) == found2, "UPC-E parity pattern accepted iff the standard defines it")
	if err2 == nil {
		zv.Assert(len(res) == 8 && res[0] == '0'+byte(ns) && res[7] == '0'+byte(cd), "UPC-E number system / check digit for the parity pattern")
	}
	zv.Reach("parity")
}

// VerifC10WriterAccepts: EAN-13 / EAN-8 / UPC-E writers with a supplied check digit: accepted
// iff it is the computed one. Two digits are free (position pos and the check digit), the rest
// is a concrete seed, so the pattern construction after the check stays cheap.
func VerifC10WriterAccepts(kind, pos, seed int) {
	n := []int{13, 8, 8}[kind]
	d := make([]int, n)
	x := seed
	for i := range d {
		x = (x*1103515245 + 12345) & 0x7fffffff
		d[i] = (x >> 8) % 10
	}
	if kind == 2 {
		d[0] = (seed >> 1) & 1
	}
	a, c := zv.Byte(), zv.Byte()
	zv.Assume(a <= 9 && c <= 9)
	if kind == 2 && pos == 0 {
		zv.Assume(a <= 1)
	}
	ad, cd := zv.Concrete(int(a)), zv.Concrete(int(c))
	d[pos] = ad
	d[n-1] = cd
	b := make([]byte, n)
	for i := range b {
		b[i] = '0' + byte(d[i])
	}
	var err error
	var want int
	switch kind {
	case 0:
		_, err = ean13Encoder{}.encodeWithHints(string(b), nil)
		want = refCheckDigit(d[:12])
	case 1:
		_, err = ean8Encoder{}.encodeWithHints(string(b), nil)
		want = refCheckDigit(d[:7])
	default:
		_, err = upcEEncoder{}.encodeWithHints(string(b), nil)
		m, last := d[1:7], d[6]
		var xd []int
		switch {
		case last <= 2:
			xd = []int{d[0], m[0], m[1], last, 0, 0, 0, 0, m[2], m[3], m[4]}
		case last == 3:
			xd = []int{d[0], m[0], m[1], m[2], 0, 0, 0, 0, 0, m[3], m[4]}
		case last == 4:
			xd = []int{d[0], m[0], m[1], m[2], m[3], 0, 0, 0, 0, 0, m[4]}
		default:
			xd = []int{d[0], m[0], m[1], m[2], m[3], m[4], 0, 0, 0, 0, last}
		}
		want = refCheckDigit(xd)
	}
	zv.Assert((err == nil) == (cd == want), "the writer accepts a supplied check digit iff it is the computed one")
	zv.Reach("writeraccepts")
}

// VerifC10WriterComputes: content without check digit is encoded exactly like the same content
// with the reference check digit appended (UPC-E: computed on the expanded number).
func VerifC10WriterComputes(kind, pos, seed int) {
	n := []int{12, 7, 7}[kind]
	d := make([]int, n)
	x := seed
	for i := range d {
		x = (x*1103515245 + 12345) & 0x7fffffff
		d[i] = (x >> 8) % 10
	}
	if kind == 2 {
		d[0] = (seed >> 1) & 1
	}
	a := zv.Byte()
	zv.Assume(a <= 9)
	if kind == 2 && pos == 0 {
		zv.Assume(a <= 1)
	}
	d[pos] = zv.Concrete(int(a))
	b := make([]byte, n)
	for i := range b {
		b[i] = '0' + byte(d[i])
	}
	var short, full []bool
	var e1, e2 error
	switch kind {
	case 0:
		short, e1 = ean13Encoder{}.encodeWithHints(string(b), nil)
		full, e2 = ean13Encoder{}.encodeWithHints(string(b)+string([]byte{'0' + byte(refCheckDigit(d))}), nil)
	case 1:
		short, e1 = ean8Encoder{}.encodeWithHints(string(b), nil)
		full, e2 = ean8Encoder{}.encodeWithHints(string(b)+string([]byte{'0' + byte(refCheckDigit(d))}), nil)
	default:
		zv.Except("C10-upce-7digit-checksum-unexpanded", true)
		m, last := d[1:7], d[6]
		var xd []int
		switch {
		case last <= 2:
			xd = []int{d[0], m[0], m[1], last, 0, 0, 0, 0, m[2], m[3], m[4]}
		case last == 3:
			xd = []int{d[0], m[0], m[1], m[2], 0, 0, 0, 0, 0, m[3], m[4]}
		case last == 4:
			xd = []int{d[0], m[0], m[1], m[2], m[3], 0, 0, 0, 0, 0, m[4]}
		default:
			xd = []int{d[0], m[0], m[1], m[2], m[3], m[4], 0, 0, 0, 0, last}
		}
		short, e1 = upcEEncoder{}.encodeWithHints(string(b), nil)
		full, e2 = upcEEncoder{}.encodeWithHints(string(b)+string([]byte{'0' + byte(refCheckDigit(xd))}), nil)
	}
	zv.Assert(e1 == nil && e2 == nil, "both contents must be accepted")
	zv.Assert(len(short) == len(full), "pattern length")
	same := true
	for i := range short {
		same = same && short[i] == full[i]
	}
	zv.Assert(same, "the computed check digit is not the standard one (patterns differ)")
	zv.Reach("writercomputes")
}

// typed from the GS1 General Specifications: EAN-5 add-on parity per check value (G = 1)
var refEAN5Parity = [10]int{0x18, 0x14, 0x12, 0x11, 0x0C, 0x06, 0x03, 0x0A, 0x09, 0x05}

// VerifC10Ext5: the EAN-5 add-on check value for five free digits is (3(d1+d3+d5) + 9(d2+d4)) mod 10,
// and each 5-bit parity pattern decodes to the check value the standard assigns, or to nothing.
func VerifC10Ext5() {
	d, s := verifDigits(5)
	sup := NewUPCEANExtension5Support()
	got := sup.extensionChecksum(s)
	want := (3*(d[0]+d[2]+d[4]) + 9*(d[1]+d[3])) % 10
	zv.Assert(got == want, "EAN-5 check value differs from the standard formula")
	zv.Assert(zv.And(got >= 0, got <= 9), "EAN-5 check value out of range")
	p := int(zv.Byte() & 0x1f)
	cd, err := sup.determineCheckDigit(p)
	w, found := 0, false
	for i := 9; i >= 0; i-- {
		if refEAN5Parity[i] == p {
			w, found = i, true
		}
	}
	zv.Assert((err == nil) == found, "EAN-5 parity pattern accepted iff the standard defines it")
	if err == nil {
		zv.Assert(cd == w, "EAN-5 check value for the parity pattern")
	}
	zv.Reach("ext5")
}

// typed from the GS1 General Specifications: left-hand odd (L) and even (G) parity digit patterns
var refLPatterns = [10]string{"0001101", "0011001", "0010011", "0111101", "0100011", "0110001", "0101111", "0111011", "0110111", "0001011"}
var refGPatterns = [10]string{"0100111", "0110011", "0011011", "0100001", "0011101", "0111001", "0000101", "0010001", "0001001", "0010111"}

// VerifC10Ext2: an EAN-2 add-on with free digits d1 d2 and a free parity choice (L or G) per digit,
// rendered at scale modules per pixel: accepted iff the parity pattern encodes (10 d1 + d2) mod 4,
// and then read as exactly those digits.
func VerifC10Ext2(scale int) {
	d1 := zv.Concrete(int(zv.IntRange(0, 9)))
	d2 := zv.Concrete(int(zv.IntRange(0, 9)))
	g1 := zv.Concrete(int(zv.IntRange(0, 1))) == 1 // concrete per path: the row must be concrete for the pattern matcher
	g2 := zv.Concrete(int(zv.IntRange(0, 1))) == 1
	mods := "0000001011" // quiet zone and add-on guard 1011
	if g1 {
		mods += refGPatterns[d1]
	} else {
		mods += refLPatterns[d1]
	}
	mods += "01" // delineator
	if g2 {
		mods += refGPatterns[d2]
	} else {
		mods += refLPatterns[d2]
	}
	mods += "000000"
	row := gozxing.NewBitArray(len(mods) * scale)
	for i := 0; i < len(mods); i++ {
		if mods[i] == '1' {
			for k := 0; k < scale; k++ {
				row.Set(i*scale + k)
			}
		}
	}
	sup := NewUPCEANExtension2Support()
	res, err := sup.decodeRow(0, row, []int{6 * scale, 10 * scale})
	parity := 0
	if g1 {
		parity |= 2
	}
	if g2 {
		parity |= 1
	}
	zv.Assert((err == nil) == ((10*d1+d2)%4 == parity), "EAN-2 add-on accepted iff the parity pattern encodes value mod 4")
	if err == nil {
		zv.Assert(res != nil && res.GetText() == string([]byte{byte('0' + d1), byte('0' + d2)}), "EAN-2 digits")
	}
	zv.Reach("ext2")
}

// the 47 Code 93 characters in value order (ISO/IEC... AIM BC5): digits, letters, - . space $ / + %, then
// the four shift characters written a b c d here
const refCode93Chars = "0123456789ABCDEFGHIJKLMNOPQRSTUVWXYZ-. $/+%abcd"

// refCode93Check: sum of value * weight, weights 1..maxWeight from the right, cyclic, modulo 47.
func refCode93Check(vals []int, maxWeight int) int {
	total := 0
	for i := len(vals) - 1; i >= 0; i-- {
		w := (len(vals)-1-i)%maxWeight + 1
		total += w * vals[i]
	}
	return total % 47
}

// VerifC10Code93: n free Code 93 characters (values concrete per path): the writer's C and K are
// the standard's (weights cycling 1..20 and 1..15); the reader's check accepts data+C+K; replacing
// the character at position pos of data+C+K (pos < 0: none) by any other character makes the check fail.
func VerifC10Code93(n, pos int) {
	vals := make([]int, n)
	b := make([]byte, n)
	for i := range vals {
		vals[i] = zv.Concrete(int(zv.IntRange(0, 46)))
		b[i] = refCode93Chars[vals[i]]
	}
	c := code93ComputeChecksumIndex(string(b), 20)
	wantC := refCode93Check(vals, 20)
	zv.Assert(c == wantC, "Code 93 check character C")
	withC := append(append([]byte(nil), b...), refCode93Chars[wantC])
	k := code93ComputeChecksumIndex(string(withC), 15)
	wantK := refCode93Check(append(append([]int(nil), vals...), wantC), 15)
	zv.Assert(k == wantK, "Code 93 check character K")
	full := append(withC, refCode93Chars[wantK])
	zv.Assert(code93CheckChecksums(full) == nil, "the reader accepts the standard's check characters")
	if pos >= 0 {
		s := zv.Concrete(int(zv.IntRange(0, 46)))
		if refCode93Chars[s] != full[pos] {
			bad := append([]byte(nil), full...)
			bad[pos] = refCode93Chars[s]
			zv.Assert(code93CheckChecksums(bad) != nil, "a single substituted character must fail the C/K check")
		}
	}
	zv.Reach("code93")
}

// VerifC10Code128: the Code 128 symbol of a template, with the symbol character at index pos
// (0 = start code, then data, then the check character) replaced by the pattern of a free other value:
// DecodeRow reports an error or the original text — never a different text.
func VerifC10Code128(tmpl, pos int) {
	content := []string{"Ab1x23456z", "12345678", "\nAB\x02CD12"}[tmpl]
	code, err := code128Encoder{}.encode(content)
	zv.Assert(err == nil, "encode")
	s := zv.Concrete(int(zv.IntRange(0, 105)))
	// read the original value at pos from the modules, to skip the identity substitution
	pat := code128CODE_PATTERNS[s]
	sub := make([]bool, 0, 11)
	black := true
	for _, w := range pat {
		for k := 0; k < w; k++ {
			sub = append(sub, black)
		}
		black = !black
	}
	same := len(sub) == 11
	for k := 0; k < 11 && same; k++ {
		same = code[pos*11+k] == sub[k]
	}
	if same || len(sub) != 11 {
		zv.Reach("code128-same")
		return
	}
	row := gozxing.NewBitArray(len(code) + 40)
	for k := range code {
		v := code[k]
		if k >= pos*11 && k < pos*11+11 {
			v = sub[k-pos*11]
		}
		if v {
			row.Set(20 + k)
		}
	}
	res, e := NewCode128Reader().(RowDecoder).DecodeRow(0, row, nil)
	zv.Assert((res != nil) != (e != nil), "result xor error")
	if e == nil {
		zv.Assert(res.GetText() == content, "a substituted symbol character must not be read as different text")
	}
	zv.Reach("code128")
}
