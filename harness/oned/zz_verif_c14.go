package oned

// C14 — rendering geometry of the 1-D writers.

import (
	zv "github.com/makiuchi-d/gozxing/zzverif"
)

// VerifC141D: a code of n free modules with margin q (modules, shared between both sides).
func VerifC141D(n, q int) {
	code := zv.Bools(n)
	f := n + q
	for _, rw := range []int{0, 1, n, f - 1, f, f + 1, 2*f - 1, 2 * f, 2*f + 1, 3*f + 2, 8 * n} {
		if rw < 0 {
			continue
		}
		for _, rh := range []int{0, 1, 2, 7} {
			out, err := onedWriter_renderResult(code, rw, rh, q)
			zv.Assert(err == nil && out != nil, "render failed")
			ow, oh := rw, rh
			if ow < f {
				ow = f
			}
			if oh < 1 {
				oh = 1
			}
			zv.Assert(out.GetWidth() == ow && out.GetHeight() == oh, "output size must be max(requested, code + margin) x max(requested, 1)")
			s := ow / f
			pad := (ow - n*s) / 2
			zv.Assert(2*pad >= q*s-1, "quiet zone smaller than the margin")
			for y := 0; y < oh; y++ {
				ok := true
				for x := 0; x < ow; x++ {
					want := false
					if x >= pad && x < pad+n*s {
						want = code[(x-pad)/s]
					}
					ok = zv.And(ok, out.Get(x, y) == want)
				}
				zv.Assert(ok, "pixel row differs from the scaled, centred bar pattern")
			}
		}
	}
	zv.Reach("c141d")
}
