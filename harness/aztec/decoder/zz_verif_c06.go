package decoder

// C06 — Aztec high-level decoding is total on any corrected bit sequence.

import (
	zv "github.com/makiuchi-d/gozxing/zzverif"
)

func VerifC06AztecBits(n int) {
	bits := zv.Bools(n)
	zv.Except("C06-aztec-short-input", n < 2)
	_, err := NewDecoder().HighLevelDecode(bits)
	_ = err
	zv.Reach("aztecbits")
}
