package decoder

// C11 (high-level layer) — the table-driven decode with latch/shift semantics against the code
// tables of ISO/IEC 24778 typed here independently of the implementation's tables.

import (
	"github.com/makiuchi-d/gozxing/aztec/detector"
	"github.com/makiuchi-d/gozxing/common/reedsolomon"
	zv "github.com/makiuchi-d/gozxing/zzverif"
)

// data characters per table and code ("" = not a data character: latch, shift or FLG)
var refAztecUpper = [32]string{"", " ", "A", "B", "C", "D", "E", "F", "G", "H", "I", "J", "K", "L", "M", "N", "O", "P", "Q", "R", "S", "T", "U", "V", "W", "X", "Y", "Z", "", "", "", ""}
var refAztecLower = [32]string{"", " ", "a", "b", "c", "d", "e", "f", "g", "h", "i", "j", "k", "l", "m", "n", "o", "p", "q", "r", "s", "t", "u", "v", "w", "x", "y", "z", "", "", "", ""}
var refAztecMixed = [32]string{"", " ", "\x01", "\x02", "\x03", "\x04", "\x05", "\x06", "\x07", "\x08", "\x09", "\x0a", "\x0b", "\x0c", "\x0d", "\x1b", "\x1c", "\x1d", "\x1e", "\x1f", "@", "\\", "^", "_", "`", "|", "~", "\x7f", "", "", "", ""}
var refAztecPunct = [32]string{"", "\r", "\r\n", ". ", ", ", ": ", "!", "\"", "#", "$", "%", "&", "'", "(", ")", "*", "+", ",", "-", ".", "/", ":", ";", "<", "=", ">", "?", "[", "]", "{", "}", ""}
var refAztecDigit = [16]string{"", " ", "0", "1", "2", "3", "4", "5", "6", "7", "8", "9", ",", ".", "", ""}

// table indices: 0 upper, 1 lower, 2 mixed, 3 punct, 4 digit
func refAztecChar(table, code int) string {
	switch table {
	case 0:
		return refAztecUpper[code]
	case 1:
		return refAztecLower[code]
	case 2:
		return refAztecMixed[code]
	case 3:
		return refAztecPunct[code]
	}
	return refAztecDigit[code]
}

type verifBits struct{ b []bool }

func (v *verifBits) emit(code, n int) {
	for i := n - 1; i >= 0; i-- {
		v.b = append(v.b, code>>uint(i)&1 == 1)
	}
}

// latch from UPPER (the initial table) into the table
func (v *verifBits) latch(table int) {
	switch table {
	case 1:
		v.emit(28, 5) // L/L
	case 2:
		v.emit(29, 5) // M/L
	case 3:
		v.emit(29, 5) // M/L
		v.emit(30, 5) // P/L
	case 4:
		v.emit(30, 5) // D/L
	}
}

// freeCode: a free data code of the table (made concrete per path) and its reference character.
func freeCode(table int) (int, int, string) {
	size, hi := 5, 27
	switch table {
	case 3:
		hi = 30
	case 4:
		size, hi = 4, 13
	}
	c := zv.Concrete(zv.IntRange(1, hi))
	return c, size, refAztecChar(table, c)
}

// VerifC11Codes: latch into the table, then n free data codes: the text is the concatenation of
// the standard's characters.
func VerifC11Codes(table, n int) {
	var v verifBits
	v.latch(table)
	want := ""
	for i := 0; i < n; i++ {
		c, size, s := freeCode(table)
		v.emit(c, size)
		want += s
	}
	got, err := NewDecoder().HighLevelDecode(v.b)
	zv.Assert(err == nil, "a conforming code sequence decodes")
	zv.Assert(got == want, "decoded text differs from the standard's code tables")
	zv.Reach("c11codes")
}

// VerifC11Shift: shift semantics. kind 0: upper x, P/S p, upper y. 1: lower x, U/S X, lower y.
// 2: digit d, U/S X, digit e. 3: digit d, P/S p, digit e. 4: mixed m, P/S p, mixed n.
// 5: lower x, M/L m, U/L -> upper y (latches chain). 6: punct p, U/L -> upper y.
func VerifC11Shift(kind int) {
	var v verifBits
	want := ""
	put := func(table int) {
		c, size, s := freeCode(table)
		v.emit(c, size)
		want += s
	}
	switch kind {
	case 0:
		put(0)
		v.emit(0, 5) // P/S
		put(3)
		put(0)
	case 1:
		v.latch(1)
		put(1)
		v.emit(28, 5) // U/S
		put(0)
		put(1)
	case 2:
		v.latch(4)
		put(4)
		v.emit(15, 4) // U/S
		put(0)
		put(4)
	case 3:
		v.latch(4)
		put(4)
		v.emit(0, 4) // P/S
		put(3)
		put(4)
	case 4:
		v.latch(2)
		put(2)
		v.emit(0, 5) // P/S
		put(3)
		put(2)
	case 5:
		v.latch(1)
		put(1)
		v.emit(29, 5) // M/L
		put(2)
		v.emit(29, 5) // U/L
		put(0)
	default:
		v.latch(3)
		put(3)
		v.emit(31, 5) // U/L
		put(0)
	}
	got, err := NewDecoder().HighLevelDecode(v.b)
	zv.Assert(err == nil, "a conforming code sequence decodes")
	zv.Assert(got == want, "shift / latch semantics differ from the standard")
	zv.Reach("c11shift")
}

// VerifC11Binary: from table t: B/S with a length of n bytes (short form n <= 31, long form above),
// n free bytes below 0x80, then one more character of table t (binary shift returns to it).
func VerifC11Binary(table, n int) {
	var v verifBits
	v.latch(table)
	switch table {
	case 4: // digit has no B/S: latch to upper first
		v.emit(14, 4) // U/L
		table = 0
	case 3: // nor has punct
		v.emit(31, 5) // U/L
		table = 0
	}
	v.emit(31, 5) // B/S
	if n <= 31 {
		v.emit(n, 5)
	} else {
		v.emit(0, 5)
		v.emit(n-31, 11)
	}
	want := make([]byte, 0, n+2)
	for i := 0; i < n; i++ {
		c := zv.Byte()
		zv.Assume(c < 0x80)
		for k := 7; k >= 0; k-- {
			v.b = append(v.b, c>>uint(k)&1 == 1)
		}
		want = append(want, c)
	}
	c, size, s := freeCode(table)
	v.emit(c, size)
	got, err := NewDecoder().HighLevelDecode(v.b)
	zv.Assert(err == nil, "a conforming binary shift decodes")
	zv.Assert(got == string(want)+s, "binary shift: bytes and the return to the invoking table")
	zv.Reach("c11binary")
}

// verifNoRS stands in for (*reedsolomon.ReedSolomonDecoder).Decode in the un-stuffing tasks: the
// codewords are taken as received (the Reed-Solomon algebra is C04's subject).
func verifNoRS(this *reedsolomon.ReedSolomonDecoder, received []int, twoS int) error { return nil }

// VerifC11Unstuff: correctBits on a symbol of the given layer count (codeword size 6, 8, 10, 12 by
// layers) with pad leading bits, nData free data codewords and nEC parity codewords: all-zero and
// all-one data codewords are format errors; a codeword 0..01 / 1..10 contributes size-1 equal bits
// (its last bit is stuffing); every other codeword contributes its bits; the error-correction level
// is 100 * nEC / (nData + nEC).
func VerifC11Unstuff(layers, nData, nEC, pad int) {
	size := 12
	switch {
	case layers <= 2:
		size = 6
	case layers <= 8:
		size = 8
	case layers <= 22:
		size = 10
	}
	mask := 1<<uint(size) - 1
	var raw []bool
	for i := 0; i < pad; i++ {
		raw = append(raw, zv.Bool())
	}
	words := make([]int, nData)
	for i := range words {
		words[i] = int(zv.Uint16()) & mask
		for b := size - 1; b >= 0; b-- {
			raw = append(raw, words[i]>>uint(b)&1 == 1)
		}
	}
	for i := 0; i < nEC*size; i++ {
		raw = append(raw, zv.Bool())
	}
	d := NewDecoder()
	d.ddata = detector.NewAztecDetectorResult(nil, nil, layers <= 4, nData, layers)
	res, err := d.correctBits(raw)
	bad := false
	for _, w := range words {
		bad = zv.Or(bad, zv.Or(w == 0, w == mask))
	}
	zv.Assert((err != nil) == bad, "an all-zero or all-one data codeword (and nothing else) is a format error")
	if err != nil {
		zv.Reach("c11unstuff-err")
		return
	}
	var want []bool
	for _, w := range words {
		if w == 1 || w == mask-1 {
			for j := 0; j < size-1; j++ {
				want = append(want, w > 1)
			}
		} else {
			for b := size - 1; b >= 0; b-- {
				want = append(want, w>>uint(b)&1 == 1)
			}
		}
	}
	zv.Assert(len(res.correctBits) == len(want), "number of bits after un-stuffing")
	if len(res.correctBits) == len(want) {
		ok := true
		for i := range want {
			ok = zv.And(ok, res.correctBits[i] == want[i])
		}
		zv.Assert(ok, "un-stuffed bits")
	}
	zv.Assert(res.ecLevel == 100*nEC/(nData+nEC), "error correction level")
	zv.Reach("c11unstuff")
}
