//go:build !gzv

package zzverif

import (
	"encoding/json"
	"os"
)

var (
	vals []InVal
	pos  int
)

// Load installs the inputs of a replay file.
func Load(path string) (*Replay, error) {
	b, err := os.ReadFile(path)
	if err != nil {
		return nil, err
	}
	var r Replay
	if err := json.Unmarshal(b, &r); err != nil {
		return nil, err
	}
	vals, pos = r.Inputs, 0
	return &r, nil
}

func next() uint64 {
	if pos >= len(vals) {
		panic(InputsExhausted{})
	}
	v := vals[pos].Val
	pos++
	return v
}
