//go:build !gzv

package zzverif

import (
	"encoding/json"
	"os"
	"runtime"
)

var (
	vals []InVal
	pos  int
)

// Load installs the inputs of a replay file.
func Load(path string) (*Replay, error) {
	b, err := os.ReadFile(path)
	if err != nil {
		return nil, err
	}
	var r Replay
	if err := json.Unmarshal(b, &r); err != nil {
		return nil, err
	}
	vals, pos = r.Inputs, 0
	return &r, nil
}

func next() uint64 {
	p := &pos
	if conc != nil {
		p = conc[goid()]
	}
	if *p >= len(vals) {
		panic(InputsExhausted{})
	}
	v := vals[*p].Val
	*p++
	return v
}

// ---- concurrent replay (C18): every goroutine reads the loaded inputs through its own cursor ----

var conc map[uint64]*int

func goid() uint64 {
	var buf [64]byte
	n := runtime.Stack(buf[:], false)
	// "goroutine 123 [running]:"
	var id uint64
	for _, c := range buf[len("goroutine "):n] {
		if c < '0' || c > '9' {
			break
		}
		id = id*10 + uint64(c-'0')
	}
	return id
}

// RunConcurrently runs f in n goroutines released together; it returns what each one panicked
// with (nil for a normal return). Meant to be run under the race detector.
func RunConcurrently(n int, f func()) []interface{} {
	ids := make(chan uint64, n)
	start := make(chan struct{})
	done := make(chan int, n)
	out := make([]interface{}, n)
	for i := 0; i < n; i++ {
		go func(i int) {
			defer func() {
				out[i] = recover()
				done <- i
			}()
			ids <- goid()
			<-start
			f()
		}(i)
	}
	m := map[uint64]*int{}
	for i := 0; i < n; i++ {
		m[<-ids] = new(int)
	}
	conc = m
	close(start)
	for i := 0; i < n; i++ {
		<-done
	}
	conc = nil
	return out
}
