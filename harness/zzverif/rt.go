// Package zzverif is the harness runtime. Under the symbolic executor (gzv) every function here is
// intercepted: Bool/Byte/... create fresh SMT variables, Assume/Assert become path constraints and
// proof obligations. Compiled natively (go test -overlay) the same functions read the values of a
// counter-model from the file named by VERIF_REPLAY_FILE, so a harness is also its own replay test.
package zzverif

import "math"

type InVal struct {
	Kind string `json:"kind"`
	Val  uint64 `json:"val"`
}

type Replay struct {
	Property string  `json:"property"`
	Pkg      string  `json:"pkg"`
	Func     string  `json:"func"`
	Args     []int64 `json:"args"`
	Kind     string  `json:"kind"`
	Msg      string  `json:"msg"`
	Where    string  `json:"where"`
	Inputs   []InVal `json:"inputs"`
	Known    string  `json:"known,omitempty"`
	Expect   string  `json:"expect,omitempty"`
}

type AssertFailed struct{ Msg string }
type AssumeViolated struct{}
type InputsExhausted struct{}

func Bool() bool       { return next() != 0 }
func Byte() byte       { return byte(next()) }

// Digit is a free 4-bit value (0..15) as a byte: callers assume the range they need.
func Digit() byte { return byte(next()) & 0x0f }
func Uint16() uint16   { return uint16(next()) }
func Uint32() uint32   { return uint32(next()) }
func Int32() int32     { return int32(next()) }
func Int() int         { return int(next()) }
func Float64() float64 { return math.Float64frombits(next()) }

// IntRange returns an arbitrary int in [lo, hi].
func IntRange(lo, hi int) int {
	v := int(next())
	if v < lo || v > hi {
		panic(AssumeViolated{})
	}
	return v
}

func Assume(c bool) {
	if !c {
		panic(AssumeViolated{})
	}
}

func Assert(c bool, msg string) {
	if !c {
		panic(AssertFailed{msg})
	}
}

func Fail(msg string) { panic(AssertFailed{msg}) }

// Reach marks a point that must be reachable (vacuity guard).
func Reach(tag string) {}

// Except declares that the region pred is a listed known finding `id` (see known_findings.json).
func Except(id string, pred bool) {}

// Concrete forks the symbolic execution over every feasible value of x.
func Concrete(x int) int { return x }

// Symbolic reports whether the code runs under the symbolic executor.
func Symbolic() bool { return false }

// Bytes returns n arbitrary bytes.
func Bytes(n int) []byte {
	b := make([]byte, n)
	for i := range b {
		b[i] = Byte()
	}
	return b
}

// String returns a string of n arbitrary bytes.
func String(n int) string { return string(Bytes(n)) }

// Bools returns n arbitrary booleans.
func Bools(n int) []bool {
	b := make([]bool, n)
	for i := range b {
		b[i] = Bool()
	}
	return b
}

// Uint32s returns n arbitrary words.
func Uint32s(n int) []uint32 {
	b := make([]uint32, n)
	for i := range b {
		b[i] = Uint32()
	}
	return b
}

// And, Or, Implies are non-short-circuit connectives: under the symbolic executor they build one
// term instead of a branch.
func And(a, b bool) bool     { return a && b }
func Or(a, b bool) bool      { return a || b }
func Implies(a, b bool) bool { return !a || b }
