//go:build gzv

package zzverif

// Under the symbolic executor the input functions are intercepted; this body is never run.
func next() uint64 { return 0 }
