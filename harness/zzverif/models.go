package zzverif

// Models of the x/text codecs that gozxing uses on data a harness may leave symbolic. They are
// interpreted by the symbolic executor in place of the real transformers when the input bytes are
// symbolic (on concrete bytes the real x/text code is run natively by the engine).
// Exact for: UTF-8 validation/encoding, ISO-8859-1 and US-ASCII encoding and decoding, UTF-8
// decoding of valid input. Approximate (one U+FFFD per offending byte) for UTF-8 decoding of
// invalid input and ASCII decoding of bytes >= 0x80.

// utf8Len returns the length of the well-formed UTF-8 sequence starting at b[i], or 0.
func utf8Len(b []byte, i int) int {
	c := b[i]
	n := len(b) - i
	switch {
	case c < 0x80:
		return 1
	case c < 0xC2:
		return 0
	case c < 0xE0:
		if n < 2 || b[i+1]&0xC0 != 0x80 {
			return 0
		}
		return 2
	case c < 0xF0:
		if n < 3 || b[i+1]&0xC0 != 0x80 || b[i+2]&0xC0 != 0x80 {
			return 0
		}
		if c == 0xE0 && b[i+1] < 0xA0 {
			return 0
		}
		if c == 0xED && b[i+1] >= 0xA0 {
			return 0
		}
		return 3
	case c < 0xF5:
		if n < 4 || b[i+1]&0xC0 != 0x80 || b[i+2]&0xC0 != 0x80 || b[i+3]&0xC0 != 0x80 {
			return 0
		}
		if c == 0xF0 && b[i+1] < 0x90 {
			return 0
		}
		if c == 0xF4 && b[i+1] >= 0x90 {
			return 0
		}
		return 4
	}
	return 0
}

// ValidUTF8 reports whether b is well-formed UTF-8.
func ValidUTF8(b []byte) bool {
	for i := 0; i < len(b); {
		n := utf8Len(b, i)
		if n == 0 {
			return false
		}
		i += n
	}
	return true
}

func runeAt(b []byte, i, n int) rune {
	switch n {
	case 1:
		return rune(b[i])
	case 2:
		return rune(b[i]&0x1F)<<6 | rune(b[i+1]&0x3F)
	case 3:
		return rune(b[i]&0x0F)<<12 | rune(b[i+1]&0x3F)<<6 | rune(b[i+2]&0x3F)
	}
	return rune(b[i]&0x07)<<18 | rune(b[i+1]&0x3F)<<12 | rune(b[i+2]&0x3F)<<6 | rune(b[i+3]&0x3F)
}

func ModelEncodeUTF8(src []byte) ([]byte, bool) {
	if !ValidUTF8(src) {
		return nil, false
	}
	return append([]byte(nil), src...), true
}

func modelEncodeSingle(src []byte, limit rune) ([]byte, bool) {
	var out []byte
	for i := 0; i < len(src); {
		n := utf8Len(src, i)
		if n == 0 {
			return out, false
		}
		r := runeAt(src, i, n)
		if r >= limit {
			return out, false
		}
		out = append(out, byte(r))
		i += n
	}
	return out, true
}

func ModelEncodeLatin1(src []byte) ([]byte, bool) { return modelEncodeSingle(src, 0x100) }
func ModelEncodeASCII(src []byte) ([]byte, bool)  { return modelEncodeSingle(src, 0x80) }

func ModelDecodeUTF8(src []byte) ([]byte, bool) {
	var out []byte
	for i := 0; i < len(src); {
		n := utf8Len(src, i)
		if n == 0 {
			out = append(out, 0xEF, 0xBF, 0xBD)
			i++
			continue
		}
		out = append(out, src[i:i+n]...)
		i += n
	}
	return out, true
}

func ModelDecodeLatin1(src []byte) ([]byte, bool) {
	var out []byte
	for _, c := range src {
		if c < 0x80 {
			out = append(out, c)
		} else {
			out = append(out, 0xC0|c>>6, 0x80|c&0x3F)
		}
	}
	return out, true
}

func ModelDecodeASCII(src []byte) ([]byte, bool) {
	var out []byte
	for _, c := range src {
		if c < 0x80 {
			out = append(out, c)
		} else {
			out = append(out, 0xEF, 0xBF, 0xBD)
		}
	}
	return out, true
}
