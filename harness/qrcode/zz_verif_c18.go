package qrcode

// C18 / C09 — concrete end-to-end paths: writer (real Reed-Solomon encoder) -> image -> binariser ->
// detector -> decoder, run under the engine's shared-write monitor.

import (
	"github.com/makiuchi-d/gozxing"
	zv "github.com/makiuchi-d/gozxing/zzverif"
)

var verifC18Contents = []string{"HELLO WORLD 123", "https://example.com/?q=gozxing&lang=日本語"}

func VerifC18QR(i int) {
	content := verifC18Contents[i]
	m, err := NewQRCodeWriter().Encode(content, gozxing.BarcodeFormat_QR_CODE, 120+10*i, 120+10*i, nil)
	zv.Assert(err == nil && m != nil, "content is accepted")
	bmp, err := gozxing.NewBinaryBitmapFromImage(m)
	zv.Assert(err == nil, "bitmap")
	res, err := NewQRCodeReader().Decode(bmp, nil)
	zv.Assert(err == nil && res != nil, "the rendered symbol is read")
	zv.Assert(res.GetText() == content, "read(write(c)) == c")
	// pure-barcode path as well
	bmp2, _ := gozxing.NewBinaryBitmapFromImage(m)
	res2, err := NewQRCodeReader().Decode(bmp2, map[gozxing.DecodeHintType]interface{}{gozxing.DecodeHintType_PURE_BARCODE: true})
	zv.Assert(err == nil && res2 != nil && res2.GetText() == content, "pure-barcode read")
	zv.Reach("c18qr")
}
