package decoder

// C15 — an ECI designator in a symbol: registered numbers switch the character set, unregistered or
// out-of-range numbers are a format error.

import (
	"github.com/makiuchi-d/gozxing"
	"github.com/makiuchi-d/gozxing/common"
	zv "github.com/makiuchi-d/gozxing/zzverif"
)

// registered ECI numbers (ISO/IEC 18004 / AIM ECI assignments supported by the library)
var verifC15Registered = []int{0, 1, 2, 3, 4, 5, 6, 7, 9, 11, 15, 17, 18, 20, 21, 22, 23, 24, 25, 26, 27, 28, 29, 30, 170}

// VerifC15QREci: the bit stream  0111 <ECI field of form+1 bytes, all value bits free> 0100 <count 1> 'A'
// 0000: a registered number -> decoded ("A", or the UTF-16BE reading of the bytes); otherwise FormatException.
func VerifC15QREci(form int) {
	bits := gozxing.NewEmptyBitArray()
	bits.AppendBits(7, 4)
	var v int
	switch form {
	case 0:
		v = int(zv.Byte() & 0x7f)
		bits.AppendBits(v, 8)
	case 1:
		v = int(zv.Uint16() & 0x3fff)
		bits.AppendBits(0x8000|v, 16)
	default:
		v = int(zv.Uint32() & 0x1fffff)
		bits.AppendBits(0xC00000|v, 24)
	}
	bits.AppendBits(4, 4) // byte mode
	bits.AppendBits(2, 8) // count (version 1: 8 bits)
	bits.AppendBits(0, 8)
	bits.AppendBits('A', 8)
	bits.AppendBits(0, 4)
	n := (bits.GetSize() + 7) / 8
	bytes := make([]byte, n)
	bits.ToBytes(0, bytes, 0, n)
	ver, _ := Version_GetVersionForNumber(1)
	res, err := DecodedBitStreamParser_Decode(bytes, ver, ErrorCorrectionLevel_L, nil)
	zv.Assert((res != nil) != (err != nil), "result xor error")
	registered := false
	for _, r := range verifC15Registered {
		registered = zv.Or(registered, v == r)
	}
	if err != nil {
		_, isFmt := err.(gozxing.FormatException)
		zv.Assert(isFmt, "only a format error")
		zv.Assert(!registered, "a registered ECI number must be accepted")
	} else {
		zv.Assert(registered, "an unregistered or out-of-range ECI number in a symbol must be a format error")
		eci, e2 := common.GetCharacterSetECIByValue(v)
		zv.Assert(e2 == nil && eci != nil, "registry agrees")
		if v == 25 {
			zv.Assert(res.GetText() == "A", "UTF-16BE reading of 00 41")
		} else {
			zv.Assert(res.GetText() == "\x00A", "single-byte / ASCII-compatible reading of 00 41")
		}
	}
	zv.Reach("c15qreci")
}

var verifC15HintNames = []string{"Cp437", "ISO-8859-1", "ISO-8859-2", "ISO-8859-5", "ISO-8859-7", "ISO-8859-15", "windows-1250", "windows-1251", "windows-1252", "windows-1256", "Shift_JIS", "UTF-8", "EUC-KR", "GB18030", "Big5"}

// VerifC15DecodeHint: an un-designated byte segment (two bytes: 'A' and one free byte b >= 0x80 made
// concrete per path) read with a decode-side CHARACTER_SET hint: the hinted set is used, not the guess.
func VerifC15DecodeHint(ni, lo, hi int) {
	name := verifC15HintNames[ni]
	eci, ok := common.GetCharacterSetECIByName(name)
	zv.Assert(ok, "registered")
	ver, _ := Version_GetVersionForNumber(1)
	for b := lo; b <= hi; b++ {
		raw := []byte{'A', byte(b), 'z'}
		want, err := eci.GetCharset().NewDecoder().Bytes(raw)
		if err != nil {
			continue
		}
		bits := gozxing.NewEmptyBitArray()
		bits.AppendBits(4, 4)
		bits.AppendBits(len(raw), 8)
		for _, c := range raw {
			bits.AppendBits(int(c), 8)
		}
		bits.AppendBits(0, 4)
		n := (bits.GetSize() + 7) / 8
		bytes := make([]byte, n)
		bits.ToBytes(0, bytes, 0, n)
		res, e := DecodedBitStreamParser_Decode(bytes, ver, ErrorCorrectionLevel_L, map[gozxing.DecodeHintType]interface{}{gozxing.DecodeHintType_CHARACTER_SET: name})
		zv.Assert(e == nil && res != nil, "decode with hint")
		zv.Assert(res.GetText() == string(want), "the decode-side CHARACTER_SET hint is honoured for an un-designated byte segment")
		segs := res.GetByteSegments()
		zv.Assert(len(segs) == 1 && string(segs[0]) == string(raw), "byte segment reported")
	}
	zv.Reach("c15decodehint")
}
