package decoder

// C06 — the QR bit-stream parser is total: any byte string gives a result or a FormatException.

import (
	"github.com/makiuchi-d/gozxing"
	zv "github.com/makiuchi-d/gozxing/zzverif"
)

func verifIsReaderException(err error) bool {
	switch err.(type) {
	case gozxing.FormatException, gozxing.ChecksumException, gozxing.NotFoundException:
		return true
	}
	return false
}

// VerifC06QRStream: n free bytes, version ver (count-width class), hint: 0 none, 1 CHARACTER_SET=UTF-8,
// 2 CHARACTER_SET=ISO-8859-1, 3 CHARACTER_SET=Shift_JIS.
func VerifC06QRStream(n, ver, hint int) {
	data := zv.Bytes(n)
	version, _ := Version_GetVersionForNumber(ver)
	var hints map[gozxing.DecodeHintType]interface{}
	switch hint {
	case 1:
		hints = map[gozxing.DecodeHintType]interface{}{gozxing.DecodeHintType_CHARACTER_SET: "UTF-8"}
	case 2:
		hints = map[gozxing.DecodeHintType]interface{}{gozxing.DecodeHintType_CHARACTER_SET: "ISO-8859-1"}
	case 3:
		hints = map[gozxing.DecodeHintType]interface{}{gozxing.DecodeHintType_CHARACTER_SET: "Shift_JIS"}
	}
	res, err := DecodedBitStreamParser_Decode(data, version, ErrorCorrectionLevel_M, hints)
	zv.Assert((res != nil) != (err != nil), "parser must return exactly one of result and error")
	if err != nil {
		_, isF := err.(gozxing.FormatException)
		zv.Assert(isF, "parser errors must be FormatException")
	}
	zv.Reach("qrstream")
}

// VerifC06QRMatrixDims: Decoder.Decode on blank and full matrices of every size w x h in the
// given range: result or reader exception, never a panic.
func VerifC06QRMatrixDims(lo, hi int) {
	for w := lo; w <= hi; w++ {
		for h := lo; h <= hi; h++ {
			for fill := 0; fill < 2; fill++ {
				b, _ := gozxing.NewBitMatrix(w, h)
				if fill == 1 {
					b.FlipAll()
				}
				zv.Except("C06-qr-decode-nonsquare", w != h)
				res, err := NewDecoder().Decode(b, nil)
				zv.Assert((res != nil) != (err != nil), "Decode must return exactly one of result and error")
				if err != nil {
					zv.Assert(verifIsReaderException(err), "Decode errors must be format/checksum/not-found")
				}
			}
		}
	}
	zv.Reach("qrdims")
}

// VerifC06QRMatrixDimsOne: a single w x h matrix (for the known-finding confirmation).
func VerifC06QRMatrixDimsOne(w, h int) {
	b, _ := gozxing.NewBitMatrix(w, h)
	res, err := NewDecoder().Decode(b, nil)
	zv.Assert((res != nil) != (err != nil), "Decode must return exactly one of result and error")
	zv.Reach("qrdimsone")
}

// VerifC06QRVersionBlocks: a dim x dim matrix (dim = 17 + 4v, v >= 7) in which one 18-bit version
// information block is free (which = 0: top right, 1: bottom left) and everything else is white (so
// the other block is unreadable): ReadVersion gives a version whose dimension is the matrix's, or an
// error — a version that does not match the matrix would make ReadCodewords index outside it.
func VerifC06QRVersionBlocks(v, which int) {
	dim := 17 + 4*v
	b, _ := gozxing.NewSquareBitMatrix(dim)
	w := zv.Uint32() & 0x3ffff
	k := 0
	for j := 0; j <= 5; j++ {
		for i := dim - 11; i <= dim-9; i++ {
			if w>>uint(k)&1 == 1 {
				if which == 0 {
					b.Set(i, j) // top right block: 3 wide, 6 tall
				} else {
					b.Set(j, i) // bottom left block: its transpose
				}
			}
			k++
		}
	}
	p, e0 := NewBitMatrixParser(b)
	zv.Assert(e0 == nil, "parser")
	ver, err := p.ReadVersion()
	zv.Assert((ver != nil) != (err != nil), "version xor error")
	if err == nil {
		zv.Assert(ver.GetDimensionForVersion() == dim, "a version that does not match the matrix size must be refused")
	}
	zv.Reach("qrversionblocks")
}
