package decoder

// C06 — the QR bit-stream parser is total: any byte string gives a result or a FormatException.

import (
	"github.com/makiuchi-d/gozxing"
	zv "github.com/makiuchi-d/gozxing/zzverif"
)

func verifIsReaderException(err error) bool {
	switch err.(type) {
	case gozxing.FormatException, gozxing.ChecksumException, gozxing.NotFoundException:
		return true
	}
	return false
}

// VerifC06QRStream: n free bytes, version ver (count-width class), hint: 0 none, 1 CHARACTER_SET=UTF-8,
// 2 CHARACTER_SET=ISO-8859-1, 3 CHARACTER_SET=Shift_JIS.
func VerifC06QRStream(n, ver, hint int) {
	data := zv.Bytes(n)
	version, _ := Version_GetVersionForNumber(ver)
	var hints map[gozxing.DecodeHintType]interface{}
	switch hint {
	case 1:
		hints = map[gozxing.DecodeHintType]interface{}{gozxing.DecodeHintType_CHARACTER_SET: "UTF-8"}
	case 2:
		hints = map[gozxing.DecodeHintType]interface{}{gozxing.DecodeHintType_CHARACTER_SET: "ISO-8859-1"}
	case 3:
		hints = map[gozxing.DecodeHintType]interface{}{gozxing.DecodeHintType_CHARACTER_SET: "Shift_JIS"}
	}
	res, err := DecodedBitStreamParser_Decode(data, version, ErrorCorrectionLevel_M, hints)
	zv.Assert((res != nil) != (err != nil), "parser must return exactly one of result and error")
	if err != nil {
		_, isF := err.(gozxing.FormatException)
		zv.Assert(isF, "parser errors must be FormatException")
	}
	zv.Reach("qrstream")
}

// VerifC06QRMatrixDims: Decoder.Decode on blank and full matrices of every size w x h in the
// given range: result or reader exception, never a panic.
func VerifC06QRMatrixDims(lo, hi int) {
	for w := lo; w <= hi; w++ {
		for h := lo; h <= hi; h++ {
			for fill := 0; fill < 2; fill++ {
				b, _ := gozxing.NewBitMatrix(w, h)
				if fill == 1 {
					b.FlipAll()
				}
				zv.Except("C06-qr-decode-nonsquare", w != h)
				res, err := NewDecoder().Decode(b, nil)
				zv.Assert((res != nil) != (err != nil), "Decode must return exactly one of result and error")
				if err != nil {
					zv.Assert(verifIsReaderException(err), "Decode errors must be format/checksum/not-found")
				}
			}
		}
	}
	zv.Reach("qrdims")
}

// VerifC06QRMatrixDimsOne: a single w x h matrix (for the known-finding confirmation).
func VerifC06QRMatrixDimsOne(w, h int) {
	b, _ := gozxing.NewBitMatrix(w, h)
	res, err := NewDecoder().Decode(b, nil)
	zv.Assert((res != nil) != (err != nil), "Decode must return exactly one of result and error")
	zv.Reach("qrdimsone")
}
