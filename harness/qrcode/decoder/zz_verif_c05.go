package decoder

// C05(b) — BCH-protected format and version information tolerate up to three flipped bits per copy.

import (
	"math/bits"

	"github.com/makiuchi-d/gozxing/common/reedsolomon"
	zv "github.com/makiuchi-d/gozxing/zzverif"
)

// reference BCH words by long division (ISO/IEC 18004 Annex C / D), not from the tables
func refFormatWord(data int) int {
	rem := data
	for i := 0; i < 10; i++ {
		rem = rem<<1 ^ (rem>>9)*0x537
	}
	return (data<<10 | rem&0x3FF) ^ 0x5412
}

func refVersionWord(ver int) int {
	rem := ver
	for i := 0; i < 12; i++ {
		rem = rem<<1 ^ (rem>>11)*0x1F25
	}
	return ver<<12 | rem&0xFFF
}

func verifFlips(nbits, max int) uint {
	e := uint(zv.Uint32()) & (1<<uint(nbits) - 1)
	zv.Assume(bits.OnesCount(e) <= max)
	return e
}

// VerifC05Format: format word `data` (2 level bits, 3 mask bits); both copies carry up to three
// arbitrary bit flips each.
func VerifC05Format(data int) {
	w := uint(refFormatWord(data))
	e1, e2 := verifFlips(15, 3), verifFlips(15, 3)
	fi := FormatInformation_DecodeFormatInformation(w^e1, w^e2)
	zv.Assert(fi != nil, "format information with <= 3 flipped bits per copy was not decoded")
	if fi != nil {
		lvl, _ := ErrorCorrectionLevel_ForBits(uint(data >> 3))
		zv.Assert(fi.GetErrorCorrectionLevel() == lvl, "format information decoded to a different error correction level")
		zv.Assert(int(fi.GetDataMask()) == data&7, "format information decoded to a different mask")
	}
	zv.Reach("format")
}

// VerifC05FormatOneCopyLost: one copy arbitrary garbage is NOT promised; but one clean copy and
// one copy with up to 3 flips in the other order must also work (symmetry of the two arguments).
func VerifC05FormatTable(data int) {
	// the lookup table holds exactly the BCH word of its index
	zv.Assert(int(formatInfoDecodeLookup[data][0]) == refFormatWord(data) && int(formatInfoDecodeLookup[data][1]) == data, "format lookup table entry differs from the BCH recomputation")
	zv.Reach("formattable")
}

// VerifC05Version: version word for version ver (7..40) with up to three flipped bits.
func VerifC05Version(ver int) {
	w := refVersionWord(ver)
	e := int(verifFlips(18, 3))
	v, err := Version_decodeVersionInformation(w ^ e)
	zv.Assert(err == nil && v != nil, "version information with <= 3 flipped bits was not decoded")
	if err == nil {
		zv.Assert(v.GetVersionNumber() == ver, "version information decoded to a different version")
	}
	zv.Assert(VERSION_DECODE_INFO[ver-7] == w, "version table entry differs from the BCH recomputation")
	zv.Reach("version")
}

// VerifC05Correct: the real (*Decoder).correctErrors on a block of nData data + nEC parity
// codewords (parity from the real Reed-Solomon encoder on a fixed data pattern) in which the codeword
// at position pos carries an error of free non-zero magnitude and, when pos2 >= 0, a second codeword
// another free one: every data codeword must come back restored.
func VerifC05Correct(nData, nEC, pos, pos2 int) {
	words := make([]int, nData+nEC)
	for i := 0; i < nData; i++ {
		words[i] = (i*37 + 11) & 0xff
	}
	err := reedsolomon.NewReedSolomonEncoder(reedsolomon.GenericGF_QR_CODE_FIELD_256).Encode(words, nEC)
	zv.Assert(err == nil, "encode")
	cw := make([]byte, len(words))
	for i, w := range words {
		cw[i] = byte(w)
	}
	e1 := zv.Byte()
	zv.Assume(e1 != 0)
	cw[pos] ^= e1
	if pos2 >= 0 {
		e2 := zv.Byte()
		zv.Assume(e2 != 0)
		cw[pos2] ^= e2
	}
	e := NewDecoder().correctErrors(cw, nData)
	zv.Assert(e == nil, "errors within the correction capacity must be corrected")
	ok := true
	for i := 0; i < nData; i++ {
		ok = zv.And(ok, cw[i] == byte(words[i]))
	}
	zv.Assert(ok, "every data codeword is restored")
	zv.Reach("c05correct")
}
