package decoder

// C05(b) — BCH-protected format and version information tolerate up to three flipped bits per copy.

import (
	"math/bits"

	zv "github.com/makiuchi-d/gozxing/zzverif"
)

// reference BCH words by long division (ISO/IEC 18004 Annex C / D), not from the tables
func refFormatWord(data int) int {
	rem := data
	for i := 0; i < 10; i++ {
		rem = rem<<1 ^ (rem>>9)*0x537
	}
	return (data<<10 | rem&0x3FF) ^ 0x5412
}

func refVersionWord(ver int) int {
	rem := ver
	for i := 0; i < 12; i++ {
		rem = rem<<1 ^ (rem>>11)*0x1F25
	}
	return ver<<12 | rem&0xFFF
}

func verifFlips(nbits, max int) uint {
	e := uint(zv.Uint32()) & (1<<uint(nbits) - 1)
	zv.Assume(bits.OnesCount(e) <= max)
	return e
}

// VerifC05Format: format word `data` (2 level bits, 3 mask bits); both copies carry up to three
// arbitrary bit flips each.
func VerifC05Format(data int) {
	w := uint(refFormatWord(data))
	e1, e2 := verifFlips(15, 3), verifFlips(15, 3)
	fi := FormatInformation_DecodeFormatInformation(w^e1, w^e2)
	zv.Assert(fi != nil, "format information with <= 3 flipped bits per copy was not decoded")
	if fi != nil {
		lvl, _ := ErrorCorrectionLevel_ForBits(uint(data >> 3))
		zv.Assert(fi.GetErrorCorrectionLevel() == lvl, "format information decoded to a different error correction level")
		zv.Assert(int(fi.GetDataMask()) == data&7, "format information decoded to a different mask")
	}
	zv.Reach("format")
}

// VerifC05FormatOneCopyLost: one copy arbitrary garbage is NOT promised; but one clean copy and
// one copy with up to 3 flips in the other order must also work (symmetry of the two arguments).
func VerifC05FormatTable(data int) {
	// the lookup table holds exactly the BCH word of its index
	zv.Assert(int(formatInfoDecodeLookup[data][0]) == refFormatWord(data) && int(formatInfoDecodeLookup[data][1]) == data, "format lookup table entry differs from the BCH recomputation")
	zv.Reach("formattable")
}

// VerifC05Version: version word for version ver (7..40) with up to three flipped bits.
func VerifC05Version(ver int) {
	w := refVersionWord(ver)
	e := int(verifFlips(18, 3))
	v, err := Version_decodeVersionInformation(w ^ e)
	zv.Assert(err == nil && v != nil, "version information with <= 3 flipped bits was not decoded")
	if err == nil {
		zv.Assert(v.GetVersionNumber() == ver, "version information decoded to a different version")
	}
	zv.Assert(VERSION_DECODE_INFO[ver-7] == w, "version table entry differs from the BCH recomputation")
	zv.Reach("version")
}
