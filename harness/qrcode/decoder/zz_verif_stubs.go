package decoder

// verifNoCorrect stands in for (*Decoder).correctErrors (same parameters, receiver first) in the
// end-to-end tasks whose encoder side has its Reed-Solomon parity stubbed as well: the codewords
// are taken as they are. The RS algebra itself is C04's subject.
func verifNoCorrect(this *Decoder, codewordBytes []byte, numDataCodewords int) error { return nil }
