package qrcode

// C15 — character sets and ECI through the QR writer and decoder.

import (
	"github.com/makiuchi-d/gozxing"
	"github.com/makiuchi-d/gozxing/common"
	"github.com/makiuchi-d/gozxing/qrcode/decoder"
	"github.com/makiuchi-d/gozxing/qrcode/encoder"
	zv "github.com/makiuchi-d/gozxing/zzverif"
)

// the registered names (primary and aliases) a CHARACTER_SET hint may carry
var verifC15Names = []string{
	"Cp437", "ISO-8859-1", "ISO8859_1", "ISO-8859-2", "ISO8859_2", "ISO-8859-3", "ISO-8859-4", "ISO-8859-5", "ISO-8859-7", "ISO-8859-9",
	"ISO-8859-13", "ISO-8859-15", "ISO-8859-16", "Shift_JIS", "SJIS", "windows-1250", "Cp1250", "windows-1251", "windows-1252", "Cp1252", "windows-1256",
	"UTF-16BE", "UnicodeBig", "UTF-8", "UTF8", "ASCII", "US-ASCII", "Big5", "GB18030", "GB2312", "EUC_CN", "GBK", "EUC-KR", "EUC_KR",
}

func verifEncodeDecode(content, cs string) (string, []byte, error) {
	hints := map[gozxing.EncodeHintType]interface{}{gozxing.EncodeHintType_CHARACTER_SET: cs}
	code, err := encoder.Encoder_encode(content, decoder.ErrorCorrectionLevel_M, hints)
	if err != nil {
		return "", nil, err
	}
	img, e2 := renderResult(code, 0, 0, 0)
	if e2 != nil {
		return "", nil, e2
	}
	res, e3 := decoder.NewDecoder().Decode(img, nil)
	if e3 != nil {
		return "", nil, e3
	}
	return res.GetText(), res.GetRawBytes(), nil
}

// VerifC15Hinted: for the character set named verifC15Names[ni] every code point b in [lo, hi] that
// the set defines (single-byte sets: the byte b; others: skipped) is written as part of a short text
// with the CHARACTER_SET hint and read back without any decode hint: same text, and the symbol
// starts with the ECI designator of the set. The code points are concrete (enumerated in the harness);
// the Reed-Solomon encoder and decoder are the real ones.
func VerifC15Hinted(ni, lo, hi int) {
	name := verifC15Names[ni]
	eci, ok := common.GetCharacterSetECIByName(name)
	zv.Assert(ok && eci != nil, "registered name")
	dec := eci.GetCharset().NewDecoder()
	n := 0
	for b := lo; b <= hi; b++ {
		raw := []byte{byte(b)}
		u, err := dec.Bytes(raw)
		single := err == nil && len(u) > 0 && string(u) != "\uFFFD" && !(len(u) == 1 && u[0] == 0x1a)
		if single {
			back, err := eci.GetCharset().NewEncoder().Bytes(u)
			single = err == nil && len(back) == 1 && back[0] == byte(b)
		}
		if !single {
			// not a single-byte code point of this set (UTF-16, UTF-8 above 0x7F, lead bytes of
			// double-byte sets): use U+00bb..U+00FF itself if the set can represent it
			u = []byte(string(rune(b)))
			if _, err := eci.GetCharset().NewEncoder().Bytes(u); err != nil {
				continue
			}
		}
		content := "A" + string(u) + "z"
		text, rawBytes, e := verifEncodeDecode(content, name)
		zv.Assert(e == nil, "text representable in the hinted set is written and read")
		zv.Assert(text == content, "hinted: read(write(t, CHARACTER_SET=cs)) == t")
		v := eci.GetValue()
		zv.Assert(len(rawBytes) > 2 && rawBytes[0]>>4 == 7 && int(rawBytes[0]&0x0f)<<4|int(rawBytes[1]>>4) == v, "the symbol starts with the registered ECI designator")
		n++
	}
	zv.Assert(n > 0 || lo >= 0x80, "no code point exercised")
	zv.Reach("c15hinted")
}

// VerifC15Refused: text that the hinted set cannot represent is refused; an unknown set name is refused.
func VerifC15Refused(ni int) {
	name := verifC15Names[ni]
	for _, content := range []string{"A€zあЖéא", "\U0001F600"} {
		eci, _ := common.GetCharacterSetECIByName(name)
		if _, err := eci.GetCharset().NewEncoder().String(content); err == nil {
			continue // representable after all (UTF-8, UTF-16, GB18030)
		}
		_, _, e := verifEncodeDecode(content, name)
		zv.Assert(e != nil, "text not representable in the hinted set must be refused")
	}
	_, _, e := verifEncodeDecode("abc", name+"-x")
	zv.Assert(e != nil, "an unknown character set name must be refused")
	zv.Reach("c15refused")
}

// VerifC15Latin1Free: n free ISO-8859-1 characters — character i from 0xA0..0xFF when bit i of
// hiMask is set, else from 0x20..0x7E — with the hint ISO-8859-1 (alias form when alias != 0), mask
// forced; read back without a hint.
func VerifC15Latin1Free(n, hiMask, alias, mask int) {
	var u []byte
	for i := 0; i < n; i++ {
		c := zv.Byte()
		if hiMask>>uint(i)&1 == 1 {
			zv.Assume(c >= 0xA0)
			u = append(u, 0xC0|c>>6, 0x80|c&0x3F)
		} else {
			zv.Assume(c >= 0x20 && c <= 0x7E)
			u = append(u, c)
		}
	}
	content := string(u)
	name := "ISO-8859-1"
	if alias != 0 {
		name = "ISO8859_1"
	}
	hints := map[gozxing.EncodeHintType]interface{}{gozxing.EncodeHintType_CHARACTER_SET: name, gozxing.EncodeHintType_QR_MASK_PATTERN: mask}
	code, err := encoder.Encoder_encode(content, decoder.ErrorCorrectionLevel_L, hints)
	zv.Assert(err == nil && code != nil, "Latin-1 text is accepted under the Latin-1 hint")
	if err != nil {
		return
	}
	img, _ := renderResult(code, 0, 0, 0)
	res, e3 := decoder.NewDecoder().Decode(img, nil)
	zv.Assert(e3 == nil && res != nil, "read")
	if e3 != nil {
		return
	}
	zv.Assert(res.GetText() == content, "hinted Latin-1: read(write(t)) == t whatever the decoder would have guessed")
	zv.Reach("c15latin1")
}

// VerifC15Kanji: every double-byte Shift_JIS code point with lead byte in [lo, hi] that the character
// set defines, written in batches of 16 with CHARACTER_SET=Shift_JIS (Kanji mode is chosen for
// all-double-byte content) and read back: same text, and the symbol is in Kanji mode. Concrete
// enumeration executed inside the engine (the Shift_JIS table is x/text's and cannot be made symbolic).
func VerifC15Kanji(lo, hi int) {
	eci, _ := common.GetCharacterSetECIByName("Shift_JIS")
	dec := eci.GetCharset().NewDecoder()
	enc := eci.GetCharset().NewEncoder()
	batch, nb, total := "", 0, 0
	flush := func() {
		if nb == 0 {
			return
		}
		hints := map[gozxing.EncodeHintType]interface{}{gozxing.EncodeHintType_CHARACTER_SET: "Shift_JIS"}
		code, err := encoder.Encoder_encode(batch, decoder.ErrorCorrectionLevel_L, hints)
		zv.Assert(err == nil && code != nil, "double-byte Shift_JIS text is accepted")
		if err == nil {
			zv.Assert(code.GetMode() == decoder.Mode_KANJI, "all-double-byte content under the Shift_JIS hint uses Kanji mode")
			img, _ := renderResult(code, 0, 0, 0)
			res, e3 := decoder.NewDecoder().Decode(img, nil)
			zv.Assert(e3 == nil && res != nil, "the Kanji symbol is read")
			if e3 == nil {
				zv.Assert(res.GetText() == batch, "Kanji mode: read(write(t)) == t")
			}
		}
		batch, nb = "", 0
	}
	for b1 := lo; b1 <= hi; b1++ {
		if !((b1 >= 0x81 && b1 <= 0x9f) || (b1 >= 0xe0 && b1 <= 0xeb)) {
			continue
		}
		for b2 := 0x40; b2 <= 0xfc; b2++ {
			if b2 == 0x7f {
				continue
			}
			v := b1<<8 | b2
			if v > 0xebbf {
				continue // outside the range Kanji mode can carry
			}
			u, err := dec.Bytes([]byte{byte(b1), byte(b2)})
			if err != nil || string(u) == "�" || len(u) == 0 {
				continue
			}
			back, err := enc.Bytes(u)
			if err != nil || len(back) != 2 || back[0] != byte(b1) || back[1] != byte(b2) {
				continue // not a canonical code point (duplicates map elsewhere)
			}
			batch += string(u)
			nb++
			total++
			if nb == 16 {
				flush()
			}
		}
	}
	flush()
	// a row without any canonical code point in the Kanji-mode range (lead byte EB) exercises nothing
	_ = total
	zv.Reach("c15kanji")
}
