package qrcode

// C14 — rendering geometry of the QR writer: free module values, concrete sizes enumerated.

import (
	"github.com/makiuchi-d/gozxing/qrcode/encoder"
	zv "github.com/makiuchi-d/gozxing/zzverif"
)

func verifSizes(n, q int) []int {
	f := n + 2*q
	cand := []int{0, 1, n, f - 1, f, f + 1, 2*f - 1, 2 * f, 2*f + 1, 3*f + 2, 8*n + 8}
	var out []int
	seen := map[int]bool{}
	for _, c := range cand {
		if c >= 0 && !seen[c] {
			seen[c] = true
			out = append(out, c)
		}
	}
	return out
}

// VerifC14QR: an n x n symbol with free modules rendered at every boundary-relevant requested size
// and quiet zone q: size, integer scale, centring, quiet zone, uniform blocks.
func VerifC14QR(n, q int) {
	m := encoder.NewByteMatrix(n, n)
	mod := make([][]bool, n)
	for y := 0; y < n; y++ {
		mod[y] = zv.Bools(n)
		for x, v := range mod[y] {
			m.SetBool(x, y, v)
		}
	}
	code := encoder.NewQRCode()
	code.SetMatrix(m)
	for _, rw := range verifSizes(n, q) {
		for _, rh := range verifSizes(n, q) {
			out, err := renderResult(code, rw, rh, q)
			zv.Assert(err == nil && out != nil, "render failed")
			full := n + 2*q
			ow, oh := rw, rh
			if ow < full {
				ow = full
			}
			if oh < full {
				oh = full
			}
			zv.Assert(out.GetWidth() == ow && out.GetHeight() == oh, "output size must be max(requested, symbol + quiet zone)")
			s := ow / full
			if oh/full < s {
				s = oh / full
			}
			padx, pady := (ow-n*s)/2, (oh-n*s)/2
			zv.Assert(padx >= q*s && pady >= q*s, "quiet zone smaller than the margin")
			for y := 0; y < oh; y++ {
				ok := true
				for x := 0; x < ow; x++ {
					want := false
					if x >= padx && x < padx+n*s && y >= pady && y < pady+n*s {
						want = mod[(y-pady)/s][(x-padx)/s]
					}
					ok = zv.And(ok, out.Get(x, y) == want)
				}
				zv.Assert(ok, "pixel row differs from the scaled, centred module matrix")
			}
		}
	}
	zv.Reach("c14qr")
}
