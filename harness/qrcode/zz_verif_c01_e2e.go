package qrcode

// C01 end to end through the real Encoder_encode and Decoder.Decode with free content; only the
// Reed-Solomon parity generation / correction are stubbed (Redirect), everything else — mode
// choice, segment encoding, version choice, padding, block split, interleave, matrix, masking,
// format/version information, parsing, charset guess — is the real code on symbolic data.

import (
	"github.com/makiuchi-d/gozxing"
	"github.com/makiuchi-d/gozxing/qrcode/decoder"
	"github.com/makiuchi-d/gozxing/qrcode/encoder"
	zv "github.com/makiuchi-d/gozxing/zzverif"
)

const verifAlnum = "0123456789ABCDEFGHIJKLMNOPQRSTUVWXYZ $%*+-./:"

// verifContent returns n free characters of the class kind.
// kind 0: digits; 1: alphanumeric (45-character set, at least one non-digit); 2: printable ASCII
// with at least one character outside the alphanumeric set; 3: arbitrary valid UTF-8 that is not
// pure alphanumeric; 4: arbitrary bytes (used with an ISO-8859-1 hint, content given as UTF-8 of
// Latin-1 characters).
func verifContent(kind, n int) string {
	b := zv.Bytes(n)
	switch kind {
	case 0:
		for _, c := range b {
			zv.Assume(c >= '0' && c <= '9')
		}
	case 1:
		nonDigit := false
		for _, c := range b {
			in := false
			for i := 0; i < len(verifAlnum); i++ {
				in = zv.Or(in, c == verifAlnum[i])
			}
			zv.Assume(in)
			nonDigit = zv.Or(nonDigit, c < '0' || c > '9')
		}
		zv.Assume(nonDigit)
	case 2:
		lower := false
		for _, c := range b {
			zv.Assume(c >= 0x20 && c < 0x7f)
			lower = zv.Or(lower, c >= 'a' && c <= 'z')
		}
		zv.Assume(lower)
	case 3:
		zv.Assume(zv.ValidUTF8(b))
		hi := false
		for _, c := range b {
			hi = zv.Or(hi, c >= 0x80)
		}
		zv.Assume(hi)
	}
	return string(b)
}

func VerifC01EndToEnd(kind, n, lvl, mask, ver int) {
	content := verifContent(kind, n)
	hints := map[gozxing.EncodeHintType]interface{}{gozxing.EncodeHintType_QR_MASK_PATTERN: mask}
	if ver > 0 {
		hints[gozxing.EncodeHintType_QR_VERSION] = ver
	}
	code, err := encoder.Encoder_encode(content, verifLevels[lvl], hints)
	zv.Assert(err == nil && code != nil, "content that fits was refused")
	zv.Assert(code.GetMaskPattern() == mask, "forced mask not used")
	if ver > 0 {
		zv.Assert(code.GetVersion().GetVersionNumber() == ver, "forced version not used")
	}
	switch kind {
	case 0:
		zv.Assert(code.GetMode() == decoder.Mode_NUMERIC, "digits must select numeric mode")
	case 1:
		zv.Assert(code.GetMode() == decoder.Mode_ALPHANUMERIC, "alphanumeric content must select alphanumeric mode")
	default:
		zv.Assert(code.GetMode() == decoder.Mode_BYTE, "other content must select byte mode")
	}
	img, e2 := renderResult(code, 0, 0, 0)
	zv.Assert(e2 == nil, "render")
	res, e3 := decoder.NewDecoder().Decode(img, nil)
	zv.Assert(e3 == nil && res != nil, "the symbol written was not decoded")
	zv.Assert(res.GetText() == content, "decoded text differs from the content written")
	zv.Assert(res.GetECLevel() == verifLevels[lvl].String(), "decoded error correction level differs")
	zv.Reach("e2e")
}
