package qrcode

// C07 — QR symbols against an independent construction from ISO/IEC 18004: function patterns,
// BCH words, zig-zag placement, mask formulas. Written from the standard (module coordinates
// (x = column, y = row)), not from the repository's encoder.

import (
	"github.com/makiuchi-d/gozxing"
	"github.com/makiuchi-d/gozxing/qrcode/decoder"
	"github.com/makiuchi-d/gozxing/qrcode/encoder"
	zv "github.com/makiuchi-d/gozxing/zzverif"
)

type refQR struct {
	size   int
	mod    [][]bool // dark?
	isFunc [][]bool
}

func newRefQR(ver int) *refQR {
	size := 17 + 4*ver
	q := &refQR{size: size, mod: make([][]bool, size), isFunc: make([][]bool, size)}
	for i := range q.mod {
		q.mod[i] = make([]bool, size)
		q.isFunc[i] = make([]bool, size)
	}
	return q
}

func (q *refQR) setFunc(x, y int, dark bool) {
	q.mod[y][x] = dark
	q.isFunc[y][x] = true
}

func abs(a int) int {
	if a < 0 {
		return -a
	}
	return a
}

func (q *refQR) drawFunctionPatterns(ver int) {
	size := q.size
	// timing patterns
	for i := 0; i < size; i++ {
		q.setFunc(6, i, i%2 == 0)
		q.setFunc(i, 6, i%2 == 0)
	}
	// finder patterns with separators
	for _, c := range [][2]int{{3, 3}, {size - 4, 3}, {3, size - 4}} {
		for dy := -4; dy <= 4; dy++ {
			for dx := -4; dx <= 4; dx++ {
				x, y := c[0]+dx, c[1]+dy
				if x < 0 || x >= size || y < 0 || y >= size {
					continue
				}
				d := abs(dx)
				if abs(dy) > d {
					d = abs(dy)
				}
				q.setFunc(x, y, d != 2 && d != 4)
			}
		}
	}
	// alignment patterns
	centers := encoder.VerifRefAlignmentCenters(ver)
	n := len(centers)
	for i := 0; i < n; i++ {
		for j := 0; j < n; j++ {
			if (i == 0 && j == 0) || (i == 0 && j == n-1) || (i == n-1 && j == 0) {
				continue
			}
			for dy := -2; dy <= 2; dy++ {
				for dx := -2; dx <= 2; dx++ {
					d := abs(dx)
					if abs(dy) > d {
						d = abs(dy)
					}
					q.setFunc(centers[i]+dx, centers[j]+dy, d != 1)
				}
			}
		}
	}
}

func bitOf(v, i int) bool { return (v>>uint(i))&1 != 0 }

func (q *refQR) drawFormat(word int) {
	size := q.size
	for i := 0; i <= 5; i++ {
		q.setFunc(8, i, bitOf(word, i))
	}
	q.setFunc(8, 7, bitOf(word, 6))
	q.setFunc(8, 8, bitOf(word, 7))
	q.setFunc(7, 8, bitOf(word, 8))
	for i := 9; i < 15; i++ {
		q.setFunc(14-i, 8, bitOf(word, i))
	}
	for i := 0; i < 8; i++ {
		q.setFunc(size-1-i, 8, bitOf(word, i))
	}
	for i := 8; i < 15; i++ {
		q.setFunc(8, size-15+i, bitOf(word, i))
	}
	q.setFunc(8, size-8, true) // dark module
}

func (q *refQR) drawVersion(ver int) {
	if ver < 7 {
		return
	}
	word := encoder.VerifRefVersionWord(ver)
	for i := 0; i < 18; i++ {
		a, b := q.size-11+i%3, i/3
		q.setFunc(a, b, bitOf(word, i))
		q.setFunc(b, a, bitOf(word, i))
	}
}

func refMask(mask, x, y int) bool {
	i, j := y, x
	switch mask {
	case 0:
		return (i+j)%2 == 0
	case 1:
		return i%2 == 0
	case 2:
		return j%3 == 0
	case 3:
		return (i+j)%3 == 0
	case 4:
		return (i/2+j/3)%2 == 0
	case 5:
		return (i*j)%2+(i*j)%3 == 0
	case 6:
		return ((i*j)%2+(i*j)%3)%2 == 0
	}
	return ((i+j)%2+(i*j)%3)%2 == 0
}

// placeData: zig-zag placement of the final codeword stream, most significant bit first;
// remainder modules stay light; then the mask is applied to non-function modules.
func (q *refQR) placeData(stream []byte, mask int) {
	size := q.size
	i := 0
	for right := size - 1; right >= 1; right -= 2 {
		if right == 6 {
			right = 5
		}
		for vert := 0; vert < size; vert++ {
			for j := 0; j < 2; j++ {
				x := right - j
				upward := (right+1)&2 == 0
				y := vert
				if upward {
					y = size - 1 - vert
				}
				if !q.isFunc[y][x] {
					bit := false
					if i < len(stream)*8 {
						bit = (stream[i>>3]>>uint(7-i&7))&1 != 0
						i++
					}
					q.mod[y][x] = bit != refMask(mask, x, y)
				}
			}
		}
	}
}

var refLevelBits = [4]int{1, 0, 3, 2} // L, M, Q, H

// VerifC07Matrix: for a free codeword stream the encoder's module matrix equals the reference
// construction, module by module.
func VerifC07Matrix(ver, lvl, mask int) {
	version, _ := decoder.Version_GetVersionForNumber(ver)
	total := encoder.VerifRefTotalCodewords(ver)
	zv.Assert(version.GetTotalCodewords() == total, "total codewords differ from the raw module count / 8")
	stream := zv.Bytes(total)
	bits := gozxing.NewEmptyBitArray()
	for _, b := range stream {
		bits.AppendBits(int(b), 8)
	}
	dim := 17 + 4*ver
	zv.Assert(version.GetDimensionForVersion() == dim, "dimension")
	m := encoder.NewByteMatrix(dim, dim)
	e := encoder.MatrixUtil_buildMatrix(bits, verifLevels[lvl], version, mask, m)
	zv.Assert(e == nil, "buildMatrix failed")
	q := newRefQR(ver)
	q.drawFunctionPatterns(ver)
	q.drawFormat(encoder.VerifRefFormatWord(refLevelBits[lvl], mask))
	q.drawVersion(ver)
	q.placeData(stream, mask)
	for y := 0; y < dim; y++ {
		ok := true
		for x := 0; x < dim; x++ {
			v := m.Get(x, y)
			ok = zv.And(ok, zv.And(zv.Or(v == 0, v == 1), (v == 1) == q.mod[y][x]))
		}
		zv.Assert(ok, "module row differs from the reference construction")
	}
	zv.Reach("c07matrix")
}

// VerifC07Masks: encoder mask predicate == decoder mask predicate == formula, for a free module.
func VerifC07Masks(mask int) {
	x, y := zv.IntRange(0, 176), zv.IntRange(0, 176)
	xc, yc := x, y
	eb, err := encoder.MaskUtil_getDataMaskBit(mask, xc, yc)
	zv.Assert(err == nil, "mask in range")
	i, j := y, x
	var want bool
	switch mask {
	case 0:
		want = (i+j)%2 == 0
	case 1:
		want = i%2 == 0
	case 2:
		want = j%3 == 0
	case 3:
		want = (i+j)%3 == 0
	case 4:
		want = (i/2+j/3)%2 == 0
	case 5:
		want = (i*j)%2+(i*j)%3 == 0
	case 6:
		want = ((i*j)%2+(i*j)%3)%2 == 0
	default:
		want = ((i+j)%2+(i*j)%3)%2 == 0
	}
	zv.Assert(eb == want, "encoder mask predicate differs from the standard formula")
	zv.Reach("masks")
}

// VerifC07DecoderMask: unmasking a free dim x dim matrix flips exactly the formula's modules.
func VerifC07DecoderMask(mask, dim int) {
	b, _ := gozxing.NewSquareBitMatrix(dim)
	px := make([][]bool, dim)
	for y := range px {
		px[y] = zv.Bools(dim)
		for x, v := range px[y] {
			if v {
				b.Set(x, y)
			}
		}
	}
	decoder.DataMaskValues[mask].UnmaskBitMatrix(b, dim)
	ok := true
	for y := 0; y < dim; y++ {
		for x := 0; x < dim; x++ {
			ok = zv.And(ok, b.Get(x, y) == (px[y][x] != refMask(mask, x, y)))
		}
	}
	zv.Assert(ok, "decoder unmasking differs from the standard formula")
	zv.Reach("decmask")
}

// VerifC07Tables: per-version tables against the independent reference (ground obligations).
func VerifC07Tables(ver int) {
	zv.Assert(encoder.VerifRefSelfCheck(), "reference tables fail their identities")
	version, _ := decoder.Version_GetVersionForNumber(ver)
	zv.Assert(version.GetTotalCodewords() == encoder.VerifRefTotalCodewords(ver), "total codewords")
	ac := version.GetAlignmentPatternCenters()
	want := encoder.VerifRefAlignmentCenters(ver)
	zv.Assert(len(ac) == len(want), "number of alignment centres")
	for i := range want {
		zv.Assert(ac[i] == want[i], "alignment centre")
	}
	for lvl := 0; lvl < 4; lvl++ {
		ecb := version.GetECBlocksForLevel(verifLevels[lvl])
		nb := encoder.VerifRefNumBlocks(ver, lvl)
		ec := encoder.VerifRefECPerBlock(ver, lvl)
		zv.Assert(ecb.GetNumBlocks() == nb, "number of blocks")
		zv.Assert(ecb.GetECCodewordsPerBlock() == ec, "EC codewords per block")
		zv.Assert(ecb.GetTotalECCodewords() == nb*ec, "total EC codewords")
		// short/long block split from total mod blocks
		total := encoder.VerifRefTotalCodewords(ver)
		data := total - nb*ec
		short := data / nb
		nLong := data % nb
		blocks := ecb.GetECBlocks()
		cnt, sum := 0, 0
		for _, b := range blocks {
			cnt += b.GetCount()
			sum += b.GetCount() * b.GetDataCodewords()
			zv.Assert(b.GetDataCodewords() == short || (nLong > 0 && b.GetDataCodewords() == short+1), "block data size")
		}
		zv.Assert(cnt == nb && sum == data, "block structure does not add up to the data capacity")
		if len(blocks) == 2 {
			zv.Assert(blocks[0].GetDataCodewords() == short && blocks[0].GetCount() == nb-nLong && blocks[1].GetDataCodewords() == short+1 && blocks[1].GetCount() == nLong, "short blocks first, then long blocks")
		} else {
			zv.Assert(nLong == 0, "single block size")
		}
	}
	zv.Reach("tables")
}
