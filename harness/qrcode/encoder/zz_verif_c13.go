package encoder

// C13 — smallest adequate QR version, forced versions, published capacities.

import (
	"strings"

	"github.com/makiuchi-d/gozxing"
	"github.com/makiuchi-d/gozxing/qrcode/decoder"
	zv "github.com/makiuchi-d/gozxing/zzverif"
)

var verifLevels = [4]decoder.ErrorCorrectionLevel{decoder.ErrorCorrectionLevel_L, decoder.ErrorCorrectionLevel_M, decoder.ErrorCorrectionLevel_Q, decoder.ErrorCorrectionLevel_H}

func verifMode(i int) *decoder.Mode {
	switch i {
	case 0:
		return decoder.Mode_NUMERIC
	case 1:
		return decoder.Mode_ALPHANUMERIC
	case 2:
		return decoder.Mode_BYTE
	}
	return decoder.Mode_KANJI
}

// refSmallestVersion: least v with header + cc(mode, v) + payload <= 8 * dataCodewords(v, level);
// 0 if none. h and d may be symbolic.
func refSmallestVersion(h, d, lvl, mode int) int {
	want := 0
	for v := 40; v >= 1; v-- {
		if h+refCharCountBits(mode, v)+d <= 8*refDataCodewords(v, lvl) {
			want = v
		}
	}
	return want
}

// VerifC13Recommend: every header length 0..40 and every payload length 0..23700 bits at once.
func VerifC13Recommend(lvl, mode int) {
	zv.Assert(refSelfCheck(), "reference tables fail their own consistency identities")
	h := zv.IntRange(0, 40)
	d := zv.IntRange(0, 23700)
	hb, db := gozxing.VerifBitArrayOfSize(h), gozxing.VerifBitArrayOfSize(d)
	v, err := recommendVersion(verifLevels[lvl], verifMode(mode), hb, db)
	want := refSmallestVersion(h, d, lvl, mode)
	zv.Assert((err != nil) == (want == 0), "recommendVersion refuses exactly the contents that fit no version")
	zv.Assert((v != nil) == (err == nil), "version xor error")
	if err == nil {
		zv.Assert(v.GetVersionNumber() == want, "recommendVersion is not the smallest version that fits")
	}
	zv.Reach("recommend")
}

// VerifC13WillFit: the fit predicate against the reference capacity, for every version.
func VerifC13WillFit(lvl int) {
	n := zv.IntRange(0, 24000)
	for ver := 1; ver <= 40; ver++ {
		version, err := decoder.Version_GetVersionForNumber(ver)
		zv.Assert(err == nil, "version lookup")
		zv.Assert(willFit(n, version, verifLevels[lvl]) == (n <= 8*refDataCodewords(ver, lvl)), "willFit disagrees with the standard's capacity")
		zv.Assert(version.GetTotalCodewords() == refTotalCodewords(ver), "total codewords")
	}
	zv.Reach("willfit")
}

// refMaxDigits: the largest number of digits that fits (version, level) in numeric mode.
func refMaxDigits(ver, lvl int) int {
	n := 0
	for {
		bits := 4 + refCharCountBits(0, ver) + 10*((n+1)/3) + []int{0, 4, 7}[(n+1)%3]
		if bits > 8*refDataCodewords(ver, lvl) {
			return n
		}
		n++
	}
}

// VerifC13Forced: a forced version is used exactly, or refused when the content does not fit or
// the number is outside 1..40. Numeric content whose length is delta away from the capacity of
// the forced version (5 digits when the version number is out of range).
func VerifC13Forced(lvl, ver, delta int, asString bool) {
	n := 5
	if ver >= 1 && ver <= 40 {
		n = refMaxDigits(ver, lvl) + delta
	}
	content := strings.Repeat("7", n)
	hints := map[gozxing.EncodeHintType]interface{}{}
	if asString {
		hints[gozxing.EncodeHintType_QR_VERSION] = itoa(ver)
	} else {
		hints[gozxing.EncodeHintType_QR_VERSION] = ver
	}
	hints[gozxing.EncodeHintType_QR_MASK_PATTERN] = 3
	code, err := Encoder_encode(content, verifLevels[lvl], hints)
	fits := ver >= 1 && ver <= 40 && delta <= 0
	zv.Assert((err == nil) == fits, "forced version accepted exactly when the content fits it")
	zv.Assert((code != nil) == (err == nil), "code xor error")
	if err == nil {
		zv.Assert(code.GetVersion().GetVersionNumber() == ver, "forced version not used")
		zv.Assert(code.GetMatrix().GetWidth() == 17+4*ver, "matrix dimension")
	}
	zv.Reach("forced")
}

func itoa(v int) string {
	if v < 0 {
		return "-" + itoa(-v)
	}
	if v < 10 {
		return string(rune('0' + v))
	}
	return itoa(v/10) + string(rune('0'+v%10))
}

// VerifC13Capacities: the published capacities of version 40 (and 1), from the real segment encoders.
func VerifC13Capacities(mode, lvl, ver, capacity int) {
	var unit string
	switch mode {
	case 0:
		unit = "8"
	case 1:
		unit = "A"
	default:
		unit = "z"
	}
	for _, n := range []int{capacity, capacity + 1} {
		content := strings.Repeat(unit, n)
		m := chooseMode(content, Encoder_DEFAULT_BYTE_MODE_ENCODING)
		zv.Assert(m == verifMode(mode), "mode chosen for homogeneous content")
		header := gozxing.NewEmptyBitArray()
		appendModeInfo(m, header)
		data := gozxing.NewEmptyBitArray()
		e := appendBytes(content, m, data, Encoder_DEFAULT_BYTE_MODE_ENCODING)
		zv.Assert(e == nil, "appendBytes")
		v, err := recommendVersion(verifLevels[lvl], m, header, data)
		if n == capacity {
			zv.Assert(err == nil && v.GetVersionNumber() == ver, "published capacity does not fit its version")
			if ver > 1 {
				// and not a smaller one
				zv.Assert(v.GetVersionNumber() == ver, "smaller version chosen")
			}
		} else if ver == 40 {
			zv.Assert(err != nil && v == nil, "content beyond the capacity of version 40 must be refused")
		} else {
			zv.Assert(err == nil && v.GetVersionNumber() == ver+1, "capacity+1 must move to the next version")
		}
	}
	zv.Reach("capacities")
}
