package encoder

// C01(b) / C05(a) / C07: block split + interleave (encoder) against de-interleave (decoder) and
// against the standard's block structure, with every data byte free. The Reed-Solomon parity is
// replaced (call redirection, see the task's Redirect) by verifStubEC, a cheap function of the
// block's data, so that the movement of parity bytes is observable without the RS algebra.

import (
	"github.com/makiuchi-d/gozxing"
	"github.com/makiuchi-d/gozxing/qrcode/decoder"
	zv "github.com/makiuchi-d/gozxing/zzverif"
)

// verifStubEC has the signature of generateECBytes.
func verifStubEC(dataBytes []byte, numEcBytesInBlock int) ([]byte, gozxing.WriterException) {
	ec := make([]byte, numEcBytesInBlock)
	for i := range ec {
		// a rotation of one data byte: pure bit movement, distinct for distinct (i mod len, i mod 8)
		d := dataBytes[i%len(dataBytes)]
		s := uint(i % 8)
		ec[i] = d<<s | d>>(8-s)
	}
	return ec, nil
}

func VerifC01Blocks(ver, lvl int) {
	version, _ := decoder.Version_GetVersionForNumber(ver)
	level := verifLevels[lvl]
	total := refTotalCodewords(ver)
	nb := refNumBlocks[lvl][ver-1]
	ecn := refECPerBlock[lvl][ver-1]
	nData := total - nb*ecn
	ecBlocks := version.GetECBlocksForLevel(level)
	zv.Assert(version.GetTotalCodewords() == total && ecBlocks.GetNumBlocks() == nb && ecBlocks.GetTotalECCodewords() == nb*ecn, "version table differs from the standard's block structure")
	data := zv.Bytes(nData)
	bits := gozxing.NewEmptyBitArray()
	for _, b := range data {
		bits.AppendBits(int(b), 8)
	}
	out, err := interleaveWithECBytes(bits, total, nData, nb)
	zv.Assert(err == nil && out.GetSizeInBytes() == total, "interleave failed")
	stream := make([]byte, total)
	out.ToBytes(0, stream, 0, total)
	// reference interleaving (ISO 18004 8.6): blocks in order, short blocks first; data codewords
	// column by column, then EC codewords column by column
	short, nLong := nData/nb, nData%nb
	var blocks [][]byte
	off := 0
	for j := 0; j < nb; j++ {
		n := short
		if j >= nb-nLong {
			n++
		}
		blocks = append(blocks, data[off:off+n])
		off += n
	}
	var want []byte
	for i := 0; i <= short; i++ {
		for j := 0; j < nb; j++ {
			if i < len(blocks[j]) {
				want = append(want, blocks[j][i])
			}
		}
	}
	var ecs [][]byte
	for j := 0; j < nb; j++ {
		e, _ := verifStubEC(blocks[j], ecn)
		ecs = append(ecs, e)
	}
	for i := 0; i < ecn; i++ {
		for j := 0; j < nb; j++ {
			want = append(want, ecs[j][i])
		}
	}
	zv.Assert(len(want) == total, "reference stream length")
	ok := true
	for i := range want {
		ok = zv.And(ok, stream[i] == want[i])
	}
	zv.Assert(ok, "interleaved stream differs from the standard's codeword order")
	// decoder side
	dbs, e2 := decoder.DataBlock_GetDataBlocks(stream, version, level)
	zv.Assert(e2 == nil && len(dbs) == nb, "de-interleave failed")
	ok = true
	for j, db := range dbs {
		cw := db.GetCodewords()
		zv.Assert(db.GetNumDataCodewords() == len(blocks[j]) && len(cw) == len(blocks[j])+ecn, "block sizes")
		for i := range blocks[j] {
			ok = zv.And(ok, cw[i] == blocks[j][i])
		}
		for i := 0; i < ecn; i++ {
			ok = zv.And(ok, cw[len(blocks[j])+i] == ecs[j][i])
		}
	}
	zv.Assert(ok, "de-interleaved blocks differ from the blocks that were interleaved")
	zv.Reach("blocks")
}
