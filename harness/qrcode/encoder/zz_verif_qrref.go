package encoder

// Independent reference data for QR Code (ISO/IEC 18004:2015), typed from the standard's tables
// (Table 9: error correction characteristics) and formulae — NOT derived from the repository.
// Everything computable is computed; the two typed tables are cross-checked by the identities in
// refSelfCheck before they are compared with the library.

// number of error correction codewords per block, [level L,M,Q,H][version-1]
var refECPerBlock = [4][40]int{
	{7, 10, 15, 20, 26, 18, 20, 24, 30, 18, 20, 24, 26, 30, 22, 24, 28, 30, 28, 28, 28, 28, 30, 30, 26, 28, 30, 30, 30, 30, 30, 30, 30, 30, 30, 30, 30, 30, 30, 30},
	{10, 16, 26, 18, 24, 16, 18, 22, 22, 26, 30, 22, 22, 24, 24, 28, 28, 26, 26, 26, 26, 28, 28, 28, 28, 28, 28, 28, 28, 28, 28, 28, 28, 28, 28, 28, 28, 28, 28, 28},
	{13, 22, 18, 26, 18, 24, 18, 22, 20, 24, 28, 26, 24, 20, 30, 24, 28, 28, 26, 30, 28, 30, 30, 30, 30, 28, 30, 30, 30, 30, 30, 30, 30, 30, 30, 30, 30, 30, 30, 30},
	{17, 28, 22, 16, 22, 28, 26, 26, 24, 28, 24, 28, 22, 24, 24, 30, 28, 28, 26, 28, 30, 24, 30, 30, 30, 30, 30, 30, 30, 30, 30, 30, 30, 30, 30, 30, 30, 30, 30, 30},
}

// number of error correction blocks, [level L,M,Q,H][version-1]
var refNumBlocks = [4][40]int{
	{1, 1, 1, 1, 1, 2, 2, 2, 2, 4, 4, 4, 4, 4, 6, 6, 6, 6, 7, 8, 8, 9, 9, 10, 12, 12, 12, 13, 14, 15, 16, 17, 18, 19, 19, 20, 21, 22, 24, 25},
	{1, 1, 1, 2, 2, 4, 4, 4, 5, 5, 5, 8, 9, 9, 10, 10, 11, 13, 14, 16, 17, 17, 18, 20, 21, 23, 25, 26, 28, 29, 31, 33, 35, 37, 38, 40, 43, 45, 47, 49},
	{1, 1, 2, 2, 4, 4, 6, 6, 8, 8, 8, 10, 12, 16, 12, 17, 16, 18, 21, 20, 23, 23, 25, 27, 29, 34, 34, 35, 38, 40, 43, 45, 48, 51, 53, 56, 59, 62, 65, 68},
	{1, 1, 2, 4, 4, 4, 5, 6, 8, 8, 11, 11, 16, 16, 18, 16, 19, 21, 25, 25, 25, 34, 30, 32, 35, 37, 40, 42, 45, 48, 51, 54, 57, 60, 63, 66, 70, 74, 77, 81},
}

// refRawModules: data modules (bits) available in a symbol of the given version:
// all modules minus finder/separator, timing, alignment, format, version and dark modules.
func refRawModules(ver int) int {
	size := 17 + 4*ver
	n := size * size
	n -= 3 * 8 * 8 // three finder patterns with separators
	n -= 2 * (size - 16) // timing patterns
	n -= 2*15 + 1 // two copies of the format information, one dark module
	if ver >= 2 {
		a := ver/7 + 2 // alignment coordinates per axis
		n -= (a*a - 3) * 25 // alignment patterns (three corners coincide with finders)
		n += (a - 2) * 2 * 5 // alignment patterns lying on the timing lines were subtracted twice
	}
	if ver >= 7 {
		n -= 2 * 18 // version information
	}
	return n
}

func refTotalCodewords(ver int) int { return refRawModules(ver) / 8 }

// refDataCodewords: data codewords of (version, level index 0..3 = L,M,Q,H).
func refDataCodewords(ver, lvl int) int {
	return refTotalCodewords(ver) - refECPerBlock[lvl][ver-1]*refNumBlocks[lvl][ver-1]
}

// refCharCountBits: width of the character count indicator. mode: 0 numeric, 1 alphanumeric,
// 2 byte, 3 kanji.
func refCharCountBits(mode, ver int) int {
	tbl := [4][3]int{{10, 12, 14}, {9, 11, 13}, {8, 16, 16}, {8, 10, 12}}
	switch {
	case ver <= 9:
		return tbl[mode][0]
	case ver <= 26:
		return tbl[mode][1]
	}
	return tbl[mode][2]
}

// refAlignmentCenters: coordinates of the alignment pattern centres (Annex E), by the spacing rule.
func refAlignmentCenters(ver int) []int {
	if ver == 1 {
		return nil
	}
	n := ver/7 + 2
	size := 17 + 4*ver
	var step int
	if ver == 32 {
		step = 26
	} else {
		step = (ver*4 + n*2 + 1) / (n*2 - 2) * 2
	}
	res := make([]int, n)
	res[0] = 6
	pos := size - 7
	for i := n - 1; i >= 1; i-- {
		res[i] = pos
		pos -= step
	}
	return res
}

// refBCH: remainder-based BCH code words.
func refFormatWord(lvlBits, mask int) int {
	data := lvlBits<<3 | mask
	rem := data
	for i := 0; i < 10; i++ {
		rem = rem<<1 ^ (rem>>9)*0x537
	}
	return (data<<10 | rem&0x3FF) ^ 0x5412
}

func refVersionWord(ver int) int {
	rem := ver
	for i := 0; i < 12; i++ {
		rem = rem<<1 ^ (rem>>11)*0x1F25
	}
	return ver<<12 | rem&0xFFF
}

// refSelfCheck verifies identities the standard guarantees about the typed tables.
func refSelfCheck() bool {
	ok := true
	for v := 1; v <= 40; v++ {
		for l := 0; l < 4; l++ {
			d := refDataCodewords(v, l)
			ok = ok && d > 0 && refECPerBlock[l][v-1]*refNumBlocks[l][v-1] < refTotalCodewords(v)
		}
		// more correction at higher levels
		ok = ok && refDataCodewords(v, 0) > refDataCodewords(v, 1) && refDataCodewords(v, 1) > refDataCodewords(v, 2) && refDataCodewords(v, 2) > refDataCodewords(v, 3)
	}
	// published figures: data codewords and capacities of 1-L and 40-L, 40-H
	ok = ok && refTotalCodewords(1) == 26 && refTotalCodewords(40) == 3706 && refTotalCodewords(7) == 196
	ok = ok && refDataCodewords(1, 0) == 19 && refDataCodewords(40, 0) == 2956 && refDataCodewords(40, 3) == 1276 && refDataCodewords(7, 3) == 66
	return ok
}

// exported views for harnesses in other packages
func VerifRefAlignmentCenters(ver int) []int { return refAlignmentCenters(ver) }
func VerifRefFormatWord(lvlBits, mask int) int { return refFormatWord(lvlBits, mask) }
func VerifRefVersionWord(ver int) int          { return refVersionWord(ver) }
func VerifRefTotalCodewords(ver int) int       { return refTotalCodewords(ver) }
func VerifRefECPerBlock(ver, lvl int) int      { return refECPerBlock[lvl][ver-1] }
func VerifRefNumBlocks(ver, lvl int) int       { return refNumBlocks[lvl][ver-1] }
func VerifRefSelfCheck() bool                  { return refSelfCheck() }
