package qrcode

// C12 — the QR writer is total: content, size, hints in and out of range give a matrix or an error.

import (
	"github.com/makiuchi-d/gozxing"
	"github.com/makiuchi-d/gozxing/qrcode/decoder"
	zv "github.com/makiuchi-d/gozxing/zzverif"
)

func verifItoa(v int) string {
	if v < 0 {
		return "-" + verifItoa(-v)
	}
	if v < 10 {
		return string(rune('0' + v))
	}
	return verifItoa(v/10) + string(rune('0'+v%10))
}

func verifCheckQR(m *gozxing.BitMatrix, err error, width, height int) {
	zv.Assert((m != nil) != (err != nil), "Encode must return exactly one of matrix and error")
	if err == nil {
		w, h := width, height
		if w < 1 {
			w = 1
		}
		if h < 1 {
			h = 1
		}
		zv.Assert(m.GetWidth() >= w && m.GetHeight() >= h, "the matrix is smaller than the requested size")
		zv.Assert(m.GetWidth() >= 21 && m.GetHeight() >= 21, "the matrix is smaller than the smallest QR symbol")
	}
}

// VerifC12QRMargin: content "HELLO", requested size concrete, MARGIN free in [-12, 12] (int or string).
func VerifC12QRMargin(width, height int, asString bool) {
	margin := zv.Concrete(zv.IntRange(-12, 12))
	hints := map[gozxing.EncodeHintType]interface{}{gozxing.EncodeHintType_QR_MASK_PATTERN: 2}
	if asString {
		hints[gozxing.EncodeHintType_MARGIN] = verifItoa(margin)
	} else {
		hints[gozxing.EncodeHintType_MARGIN] = margin
	}
	zv.Except("C12-qr-negative-margin", margin < 0)
	m, err := NewQRCodeWriter().Encode("HELLO", gozxing.BarcodeFormat_QR_CODE, width, height, hints)
	verifCheckQR(m, err, width, height)
	zv.Reach("c12qrmargin")
}

// VerifC12QRHints: ERROR_CORRECTION in {4 levels, 4 strings, junk string, junk type}, QR_VERSION in
// {-1,0,1,2,41} and junk, QR_MASK_PATTERN in -1..8 (int and string) and junk; format over all 17.
func VerifC12QRHints(ecKind, verKind, maskKind int) {
	hints := map[gozxing.EncodeHintType]interface{}{}
	switch {
	case ecKind < 4:
		hints[gozxing.EncodeHintType_ERROR_CORRECTION] = verifLevels[ecKind]
	case ecKind < 8:
		hints[gozxing.EncodeHintType_ERROR_CORRECTION] = []string{"L", "M", "Q", "H"}[ecKind-4]
	case ecKind == 8:
		hints[gozxing.EncodeHintType_ERROR_CORRECTION] = "X"
	case ecKind == 9:
		hints[gozxing.EncodeHintType_ERROR_CORRECTION] = 3.5
	}
	vers := []interface{}{nil, -1, 0, 1, 2, 41, "2", "zz", "41", 1.5}
	if v := vers[verKind]; v != nil {
		hints[gozxing.EncodeHintType_QR_VERSION] = v
	}
	masks := []interface{}{nil, -1, 0, 7, 8, "3", "9", "x", 2.5}
	if v := masks[maskKind]; v != nil {
		hints[gozxing.EncodeHintType_QR_MASK_PATTERN] = v
	}
	m, err := NewQRCodeWriter().Encode("12", gozxing.BarcodeFormat_QR_CODE, 0, 0, hints)
	verifCheckQR(m, err, 0, 0)
	_ = decoder.ErrorCorrectionLevel_L
	zv.Reach("c12qrhints")
}

// VerifC12QRContent: n free content bytes (full byte range), forced mask; also n = 0.
func VerifC12QRContent(n int) {
	content := zv.String(n)
	hints := map[gozxing.EncodeHintType]interface{}{gozxing.EncodeHintType_QR_MASK_PATTERN: 5}
	m, err := NewQRCodeWriter().Encode(content, gozxing.BarcodeFormat_QR_CODE, 0, 0, hints)
	verifCheckQR(m, err, 0, 0)
	if n == 0 {
		zv.Assert(err != nil, "empty content must be refused")
	}
	zv.Reach("c12qrcontent")
}

// VerifC12QRFormats: the QR writer asked for every format; negative sizes.
func VerifC12QRFormats() {
	for g := gozxing.BarcodeFormat(0); g < 17; g++ {
		m, err := NewQRCodeWriter().Encode("1", g, 0, 0, map[gozxing.EncodeHintType]interface{}{gozxing.EncodeHintType_QR_MASK_PATTERN: 0})
		verifCheckQR(m, err, 0, 0)
		zv.Assert((err == nil) == (g == gozxing.BarcodeFormat_QR_CODE), "only QR_CODE is accepted")
	}
	for _, s := range [][2]int{{-1, 10}, {10, -1}, {-3, -3}} {
		m, err := NewQRCodeWriter().Encode("1", gozxing.BarcodeFormat_QR_CODE, s[0], s[1], nil)
		zv.Assert(m == nil && err != nil, "negative sizes must be refused")
	}
	zv.Reach("c12qrformats")
}
