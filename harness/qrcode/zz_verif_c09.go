package qrcode

// C09 — a mirrored (transposed) QR symbol decodes to the same content and is flagged as mirrored.

import (
	"github.com/makiuchi-d/gozxing"
	"github.com/makiuchi-d/gozxing/qrcode/decoder"
	"github.com/makiuchi-d/gozxing/qrcode/encoder"
	zv "github.com/makiuchi-d/gozxing/zzverif"
)

// VerifC09QRMirror: as VerifC01EndToEnd, but the module matrix is transposed before decoding.
// Configurations (level, mask) whose format information, read un-mirrored from the transposed symbol,
// happens to lie within BCH distance of some valid word are left to the Reed-Solomon stage (stubbed
// here) and skipped: the harness reports them through the witness "mirror-skip".
func VerifC09QRMirror(kind, n, lvl, mask, ver int) {
	content := verifContent(kind, n)
	hints := map[gozxing.EncodeHintType]interface{}{gozxing.EncodeHintType_QR_MASK_PATTERN: mask}
	if ver > 0 {
		hints[gozxing.EncodeHintType_QR_VERSION] = ver
	}
	code, err := encoder.Encoder_encode(content, verifLevels[lvl], hints)
	zv.Assert(err == nil && code != nil, "content that fits was refused")
	img, e2 := renderResult(code, 0, 0, 0)
	zv.Assert(e2 == nil, "render")
	d := img.GetWidth()
	t, _ := gozxing.NewSquareBitMatrix(d)
	for y := 0; y < d; y++ {
		for x := 0; x < d; x++ {
			if img.Get(x, y) {
				t.Set(y, x)
			}
		}
	}
	p, e3 := decoder.NewBitMatrixParser(t)
	zv.Assert(e3 == nil, "parser")
	if _, ferr := p.ReadFormatInformation(); ferr == nil {
		zv.Reach("mirror-skip")
		return
	}
	res, e4 := decoder.NewDecoder().Decode(t, nil)
	zv.Assert(e4 == nil && res != nil, "the mirrored symbol was not decoded")
	zv.Assert(res.GetText() == content, "mirrored: decoded text differs from the content written")
	meta, ok := res.GetOther().(*decoder.QRCodeDecoderMetaData)
	zv.Assert(ok && meta != nil && meta.IsMirrored(), "a mirrored symbol must be flagged as mirrored")
	// and the upright symbol is not flagged
	res0, e5 := decoder.NewDecoder().Decode(img, nil)
	zv.Assert(e5 == nil && res0 != nil && res0.GetText() == content, "upright decode")
	m0, ok0 := res0.GetOther().(*decoder.QRCodeDecoderMetaData)
	zv.Assert(!ok0 || m0 == nil || !m0.IsMirrored(), "an upright symbol must not be flagged as mirrored")
	zv.Reach("mirror")
}

// VerifC09QRImage: concrete content i written at scale s (pixels per module) with quiet zone q,
// turned by rot quarter turns and optionally mirrored, then read through the normal locating path
// (binariser -> detector -> decoder). Concrete smoke path: content or a reader error, never other content;
// for the plain upright case the content must be read.
func VerifC09QRImage(i, s, q, rot, mirror int) {
	content := verifC18Contents[i]
	code, err := encoder.Encoder_encode(content, decoder.ErrorCorrectionLevel_M, nil)
	zv.Assert(err == nil, "encode")
	n := code.GetMatrix().GetWidth()
	m, e2 := renderResult(code, (n+2*q)*s, (n+2*q)*s, q)
	zv.Assert(e2 == nil, "render")
	if mirror != 0 {
		d := m.GetWidth()
		t, _ := gozxing.NewSquareBitMatrix(d)
		for y := 0; y < d; y++ {
			for x := 0; x < d; x++ {
				if m.Get(x, y) {
					t.Set(y, x)
				}
			}
		}
		m = t
	}
	for k := 0; k < rot; k++ {
		m.Rotate90()
	}
	bmp, _ := gozxing.NewBinaryBitmapFromImage(m)
	res, e3 := NewQRCodeReader().Decode(bmp, nil)
	if e3 != nil {
		_, isReaderErr := e3.(gozxing.ReaderException)
		zv.Assert(isReaderErr, "only reader exceptions")
		zv.Assert(s < 2 || q < 2, "a clean symbol of >= 2 pixels per module with a quiet zone must be read in any orientation")
	} else {
		zv.Assert(res.GetText() == content, "never different content")
	}
	zv.Reach("c09qrimage")
}
