package qrcode

// C01 matrix and block layers: what the encoder places is what the decoder reads, for every
// payload at once (all stream bits free), per (version, level, mask).

import (
	"github.com/makiuchi-d/gozxing"
	"github.com/makiuchi-d/gozxing/qrcode/decoder"
	"github.com/makiuchi-d/gozxing/qrcode/encoder"
	zv "github.com/makiuchi-d/gozxing/zzverif"
)

var verifLevels = [4]decoder.ErrorCorrectionLevel{decoder.ErrorCorrectionLevel_L, decoder.ErrorCorrectionLevel_M, decoder.ErrorCorrectionLevel_Q, decoder.ErrorCorrectionLevel_H}

// VerifC01Matrix: free final bit stream -> buildMatrix -> render (no quiet zone, scale 1) ->
// BitMatrixParser: format, version and every codeword read back.
func VerifC01Matrix(ver, lvl, mask int) {
	version, err := decoder.Version_GetVersionForNumber(ver)
	zv.Assert(err == nil, "version")
	total := version.GetTotalCodewords()
	stream := zv.Bytes(total)
	bits := gozxing.NewEmptyBitArray()
	for _, b := range stream {
		bits.AppendBits(int(b), 8)
	}
	dim := version.GetDimensionForVersion()
	m := encoder.NewByteMatrix(dim, dim)
	e := encoder.MatrixUtil_buildMatrix(bits, verifLevels[lvl], version, mask, m)
	zv.Assert(e == nil, "buildMatrix failed")
	code := encoder.NewQRCode()
	code.SetMatrix(m)
	img, e2 := renderResult(code, 0, 0, 0)
	zv.Assert(e2 == nil && img.GetWidth() == dim && img.GetHeight() == dim, "render without quiet zone")
	parser, e3 := decoder.NewBitMatrixParser(img)
	zv.Assert(e3 == nil, "parser")
	fi, e4 := parser.ReadFormatInformation()
	zv.Assert(e4 == nil && fi != nil, "format information not readable")
	zv.Assert(fi.GetErrorCorrectionLevel() == verifLevels[lvl], "error correction level read back differs")
	zv.Assert(int(fi.GetDataMask()) == mask, "mask read back differs")
	v2, e5 := parser.ReadVersion()
	zv.Assert(e5 == nil && v2.GetVersionNumber() == ver, "version read back differs")
	cw, e6 := parser.ReadCodewords()
	zv.Assert(e6 == nil && len(cw) == total, "codewords not readable")
	ok := true
	for i := range cw {
		ok = zv.And(ok, cw[i] == stream[i])
	}
	zv.Assert(ok, "codewords read back differ from the bit stream placed")
	zv.Reach("matrix")
}
